// Concurrency driver for C20: executes a generated workload (threads x operations) first sequentially, then sequentially in the
// opposite order, then concurrently
// from a barrier (several rounds), on distinct output objects, and compares every concurrent result with the sequential
// one. Built with -fsanitize=thread so that unsynchronised shared state is reported even if no result differs.
// Workload file: first line "T R" (threads, rounds), then per thread a line "n op seed op seed ...".
#include <stdint.h>
#include <stdio.h>
#include <stdlib.h>
#include <string.h>
#include <atomic>
#include <thread>
#include <vector>

extern "C" {
#include "bls12_381/bls12_381.h"
#include "wkdibe/wkdibe.h"
#include "lqibe/lqibe.h"
}

static thread_local uint64_t rng_state = 1;
static void rnd_bytes(void* out, size_t n) {
    uint8_t* o = (uint8_t*) out;
    for (size_t i = 0; i != n; i++) {
        rng_state += 0x9e3779b97f4a7c15ULL;
        uint64_t z = rng_state;
        z = (z ^ (z >> 30)) * 0xbf58476d1ce4e5b9ULL;
        z = (z ^ (z >> 27)) * 0x94d049bb133111ebULL;
        o[i] = (uint8_t) ((z ^ (z >> 31)) >> 24);
    }
}
static void hash_fill(void* out, size_t outlen, const void* in, size_t inlen) {
    uint64_t s = 0xcbf29ce484222325ULL;
    for (size_t i = 0; i != inlen; i++) s = (s ^ ((const uint8_t*) in)[i]) * 0x100000001b3ULL;
    for (size_t i = 0; i != outlen; i++) { s = s * 6364136223846793005ULL + 1442695040888963407ULL; ((uint8_t*) out)[i] = (uint8_t) (s >> 33); }
}

struct Result { uint8_t bytes[640]; };

// shared, read-only after initialisation
static embedded_pairing_wkdibe_params_t wk_params;
static embedded_pairing_wkdibe_masterkey_t wk_msk;
static embedded_pairing_wkdibe_g1_t wk_h[4];
static embedded_pairing_lqibe_params_t lq_params;
static embedded_pairing_lqibe_masterkey_t lq_msk;

static void scalar_from(embedded_pairing_core_bigint_256_t* k, uint64_t seed) {
    uint64_t saved = rng_state;
    rng_state = seed * 2654435761u + 12345;
    rnd_bytes(k, 32);
    rng_state = saved;
}

static const int NUM_OPS = 16;
static void run_op(int op, uint64_t seed, Result* r) {
    memset(r, 0, sizeof(*r));
    embedded_pairing_core_bigint_256_t k, k2;
    scalar_from(&k, seed);
    scalar_from(&k2, seed + 77);
    rng_state = seed ^ 0x5555;
    switch (op % NUM_OPS) {
    case 0: { embedded_pairing_bls12_381_g1_t p; embedded_pairing_bls12_381_g1_multiply_affine(&p, embedded_pairing_bls12_381_g1affine_generator, &k);
              embedded_pairing_bls12_381_g1_multiply((embedded_pairing_bls12_381_g1_t*) r->bytes, &p, &k2); break; }
    case 1: { embedded_pairing_bls12_381_g2_t p; embedded_pairing_bls12_381_g2_multiply_affine(&p, embedded_pairing_bls12_381_g2affine_generator, &k);
              embedded_pairing_bls12_381_g2_multiply((embedded_pairing_bls12_381_g2_t*) r->bytes, &p, &k2); break; }
    case 2: { embedded_pairing_bls12_381_fq12_t t; embedded_pairing_bls12_381_gt_multiply(&t, embedded_pairing_bls12_381_gt_generator, &k);
              embedded_pairing_bls12_381_gt_multiply((embedded_pairing_bls12_381_fq12_t*) r->bytes, &t, &k2); break; }
    case 3: { embedded_pairing_bls12_381_g1_t p; embedded_pairing_bls12_381_g2_t q; embedded_pairing_bls12_381_g1affine_t pa; embedded_pairing_bls12_381_g2affine_t qa;
              embedded_pairing_bls12_381_g1_multiply_affine(&p, embedded_pairing_bls12_381_g1affine_generator, &k);
              embedded_pairing_bls12_381_g2_multiply_affine(&q, embedded_pairing_bls12_381_g2affine_generator, &k2);
              embedded_pairing_bls12_381_g1affine_from_projective(&pa, &p); embedded_pairing_bls12_381_g2affine_from_projective(&qa, &q);
              embedded_pairing_bls12_381_pairing((embedded_pairing_bls12_381_fq12_t*) r->bytes, &pa, &qa); break; }
    case 4: { uint8_t h[48]; memcpy(h, &k, 32); memcpy(h + 32, &k2, 16);
              embedded_pairing_bls12_381_g1affine_from_hash((embedded_pairing_bls12_381_g1affine_t*) r->bytes, h); break; }
    case 5: { uint8_t h[96]; memcpy(h, &k, 32); memcpy(h + 32, &k2, 32); memcpy(h + 64, &k, 32);
              embedded_pairing_bls12_381_g2affine_from_hash((embedded_pairing_bls12_381_g2affine_t*) r->bytes, h); break; }
    case 6: { embedded_pairing_bls12_381_g1_t p; embedded_pairing_bls12_381_g1affine_t pa, back; uint8_t buf[48];
              embedded_pairing_bls12_381_g1_multiply_affine(&p, embedded_pairing_bls12_381_g1affine_generator, &k);
              embedded_pairing_bls12_381_g1affine_from_projective(&pa, &p); embedded_pairing_bls12_381_g1_marshal(buf, &pa, true);
              r->bytes[0] = embedded_pairing_bls12_381_g1_unmarshal(&back, buf, true, true); memcpy(r->bytes + 1, buf, 48); memcpy(r->bytes + 64, &back.x, 96); break; }
    case 7: { embedded_pairing_bls12_381_g2_t q; embedded_pairing_bls12_381_g2affine_t qa, back; uint8_t buf[96];
              embedded_pairing_bls12_381_g2_multiply_affine(&q, embedded_pairing_bls12_381_g2affine_generator, &k);
              embedded_pairing_bls12_381_g2affine_from_projective(&qa, &q); embedded_pairing_bls12_381_g2_marshal(buf, &qa, true);
              r->bytes[0] = embedded_pairing_bls12_381_g2_unmarshal(&back, buf, true, true); memcpy(r->bytes + 1, buf, 96); memcpy(r->bytes + 128, &back.x, 192); break; }
    case 8: { embedded_pairing_bls12_381_g1_random((embedded_pairing_bls12_381_g1_t*) r->bytes, rnd_bytes); break; }
    case 9: { embedded_pairing_bls12_381_g2_random((embedded_pairing_bls12_381_g2_t*) r->bytes, rnd_bytes); break; }
    case 10: { embedded_pairing_core_bigint_256_t y; embedded_pairing_bls12_381_gt_multiply_random((embedded_pairing_bls12_381_fq12_t*) r->bytes, &y, embedded_pairing_bls12_381_gt_generator, rnd_bytes);
               memcpy(r->bytes + 576, &y, 32); break; }
    case 11: {  // WKD-IBE: keygen, encrypt, decrypt with shared parameters
        embedded_pairing_wkdibe_attribute_t at[1]; memset(at, 0, sizeof(at)); at[0].id = k; at[0].idx = 1; at[0].omitFromKeys = false;
        embedded_pairing_wkdibe_attributelist_t al = {at, 1, false};
        embedded_pairing_wkdibe_freeslot_t b[4]; embedded_pairing_wkdibe_secretkey_t sk; sk.b = b;
        embedded_pairing_wkdibe_keygen(&sk, &wk_params, &wk_msk, &al, rnd_bytes);
        embedded_pairing_wkdibe_ciphertext_t ct; embedded_pairing_wkdibe_encrypt(&ct, embedded_pairing_bls12_381_gt_generator, &wk_params, &al, rnd_bytes);
        embedded_pairing_wkdibe_decrypt((embedded_pairing_wkdibe_gt_t*) r->bytes, &ct, &sk);
        r->bytes[600] = (uint8_t) sk.l; break; }
    case 12: {  // WKD-IBE signatures
        embedded_pairing_wkdibe_attribute_t at[1]; memset(at, 0, sizeof(at)); at[0].id = k; at[0].idx = 2; at[0].omitFromKeys = false;
        embedded_pairing_wkdibe_attributelist_t al = {at, 1, false};
        embedded_pairing_wkdibe_freeslot_t b[4]; embedded_pairing_wkdibe_secretkey_t sk; sk.b = b;
        embedded_pairing_wkdibe_nondelegable_keygen(&sk, &wk_params, &wk_msk, &al);
        embedded_pairing_wkdibe_signature_t sg; embedded_pairing_wkdibe_sign(&sg, &wk_params, &sk, &al, &k2, rnd_bytes);
        r->bytes[0] = embedded_pairing_wkdibe_verify(&wk_params, &al, &sg, &k2);
        embedded_pairing_wkdibe_signature_marshal(r->bytes + 8, &sg, true); break; }
    case 13: {  // LQ-IBE
        embedded_pairing_lqibe_idhash_t ih; memcpy(ih.hash, &k, 32); memcpy(ih.hash + 32, &k2, 16);
        embedded_pairing_lqibe_id_t id; embedded_pairing_lqibe_compute_id_from_hash(&id, &ih);
        embedded_pairing_lqibe_secretkey_t sk; embedded_pairing_lqibe_keygen(&sk, &lq_msk, &id);
        embedded_pairing_lqibe_ciphertext_t ct; embedded_pairing_lqibe_encrypt(&ct, r->bytes, 32, &lq_params, &id, hash_fill, rnd_bytes);
        embedded_pairing_lqibe_decrypt(r->bytes + 32, 32, &ct, &sk, &id, hash_fill); break; }
    case 14: {  // G2: in-place multiplication, then a multiplication whose base is that result
        embedded_pairing_bls12_381_g2_t q; embedded_pairing_bls12_381_g2_multiply_affine(&q, embedded_pairing_bls12_381_g2affine_generator, &k);
        embedded_pairing_bls12_381_g2_multiply(&q, &q, &k2);
        embedded_pairing_bls12_381_g2_multiply((embedded_pairing_bls12_381_g2_t*) r->bytes, &q, &k); break; }
    case 15: {  // G1 likewise
        embedded_pairing_bls12_381_g1_t p; embedded_pairing_bls12_381_g1_multiply_affine(&p, embedded_pairing_bls12_381_g1affine_generator, &k);
        embedded_pairing_bls12_381_g1_multiply(&p, &p, &k2);
        embedded_pairing_bls12_381_g1_multiply((embedded_pairing_bls12_381_g1_t*) r->bytes, &p, &k); break; }
    }
}

int main(int argc, char** argv) {
    if (argc < 2) return 2;
    FILE* f = fopen(argv[1], "r");
    if (!f) return 2;
    int T, R;
    if (fscanf(f, "%d %d", &T, &R) != 2) return 2;
    std::vector<std::vector<std::pair<int, uint64_t>>> work(T);
    for (int t = 0; t != T; t++) {
        int n;
        if (fscanf(f, "%d", &n) != 1) return 2;
        for (int i = 0; i != n; i++) {
            int op; unsigned long long seed;
            if (fscanf(f, "%d %llu", &op, &seed) != 2) return 2;
            work[t].push_back({op, (uint64_t) seed});
        }
    }
    fclose(f);
    // shared parameters (single-threaded set-up)
    rng_state = 42;
    wk_params.h = wk_h;
    embedded_pairing_wkdibe_setup(&wk_params, &wk_msk, 4, true, rnd_bytes);
    embedded_pairing_lqibe_setup(&lq_params, &lq_msk, rnd_bytes);
    // sequential reference
    std::vector<std::vector<Result>> ref(T), got(T);
    for (int t = 0; t != T; t++) {
        ref[t].resize(work[t].size());
        got[t].resize(work[t].size());
        for (size_t i = 0; i != work[t].size(); i++) run_op(work[t][i].first, work[t][i].second, &ref[t][i]);
    }
    long mismatches = 0;
    // every operation is a function of (op, seed): running the same operations one after another in the opposite order must give
    // the same results - state kept between calls (a cache keyed too loosely, a counter) shows as a difference without any thread
    for (int t = T - 1; t != -1; t--) {
        for (size_t i = work[t].size(); i-- != 0; ) {
            run_op(work[t][i].first, work[t][i].second, &got[t][i]);
            if (memcmp(&ref[t][i], &got[t][i], sizeof(Result)) != 0) {
                if (mismatches < 5) printf("ORDER-MISMATCH thread=%d index=%zu op=%d seed=%llu\n", t, i, work[t][i].first % NUM_OPS, (unsigned long long) work[t][i].second);
                mismatches++;
            }
        }
    }
    for (int round = 0; round != R; round++) {
        std::atomic<int> ready(0);
        std::atomic<bool> go(false);
        std::vector<std::thread> th;
        for (int t = 0; t != T; t++) {
            th.emplace_back([&, t]() {
                ready++;
                while (!go.load()) { }
                for (size_t i = 0; i != work[t].size(); i++) run_op(work[t][i].first, work[t][i].second, &got[t][i]);
            });
        }
        while (ready.load() != T) { }
        go.store(true);
        for (auto& x : th) x.join();
        for (int t = 0; t != T; t++) {
            for (size_t i = 0; i != work[t].size(); i++) {
                if (memcmp(&ref[t][i], &got[t][i], sizeof(Result)) != 0) {
                    if (mismatches < 5) printf("MISMATCH round=%d thread=%d index=%zu op=%d seed=%llu\n", round, t, i, work[t][i].first % NUM_OPS, (unsigned long long) work[t][i].second);
                    mismatches++;
                }
            }
        }
    }
    printf("mismatches=%ld\n", mismatches);
    return mismatches ? 1 : 0;
}
