// libFuzzer target for C17: untrusted bytes through length discovery and unmarshal, following the caller protocol of the
// Go wrappers (discover the slot count, allocate exactly that many slots, unmarshal; fixed-size objects only when the
// length matches). Accepted objects must marshal again, into exactly the reported number of bytes, and unmarshal to the
// same bytes. Built with ASan + UBSan so that out-of-bounds and misaligned accesses abort.
#include <stddef.h>
#include <stdint.h>
#include <stdlib.h>
#include <string.h>

extern "C" {
#include "bls12_381/bls12_381.h"
#include "wkdibe/wkdibe.h"
#include "lqibe/lqibe.h"
}

static void fail(const char* what) {
    __builtin_trap();
    (void) what;
}

// exact-size heap copy placed `off` (0..15) bytes behind a 16-byte aligned allocation, so that every residue of the buffer address
// modulo 2, 4, 8 and 16 occurs (odd addresses, 4-but-not-8-aligned, ...); the block ends exactly where the data ends
struct Block {
    uint8_t* base;
    uint8_t* p;
    Block(const uint8_t* data, size_t n, unsigned off) {
        base = (uint8_t*) malloc(n + off);
        p = base + off;
        if (n) memcpy(p, data, n);
    }
    Block(size_t n, unsigned off) {
        base = (uint8_t*) malloc(n + off);
        p = base + off;
        memset(base, 0xEE, n + off);
    }
    ~Block() { free(base); }
};

template <typename Obj, typename Um, typename Ma>
static void fixed_size(const uint8_t* data, size_t size, size_t want, unsigned odd, Um unmarshal, Ma marshal) {
    if (size != want) return;                 // callers check the length of fixed-size objects
    Block in(data, size, odd);
    Obj* o = (Obj*) malloc(sizeof(Obj));
    if (unmarshal(o, in.p)) {
        Block out(want, odd);
        marshal(out.p, o);
        Obj* o2 = (Obj*) malloc(sizeof(Obj));
        if (!unmarshal(o2, out.p)) fail("re-marshalled object rejected");
        Block out2(want, odd);
        marshal(out2.p, o2);
        if (memcmp(out.p, out2.p, want) != 0) fail("marshal not stable");
        free(o2);
    }
    free(o);
}

extern "C" int LLVMFuzzerTestOneInput(const uint8_t* data, size_t size) {
    if (size < 2) return 0;
    uint8_t sel = data[0];
    unsigned kind = sel & 0x0F;
    bool compressed = (sel & 0x10) != 0;
    bool checked = (sel & 0x20) != 0;
    unsigned odd = (sel & 0x40) ? 1 : 0;            // buffer offset behind a 16-byte aligned address
    data++;
    size--;
    if (sel & 0x80) {                               // extended form: the last byte selects any offset 0..15
        if (size < 2) return 0;
        odd = data[size - 1] & 0x0F;
        size--;
    }
    if (size == 0 || size > (1u << 16)) return 0;
    switch (kind) {
    case 0: {   // WKD-IBE parameters
        Block in(data, size, odd);
        int n = embedded_pairing_wkdibe_params_unmarshalled_length(in.p, size, compressed);
        if (n < -1) fail("length discovery returned a negative count other than -1 (callers only test for -1)");
        if (n < 0) return 0;
        embedded_pairing_wkdibe_params_t p;
        p.h = (embedded_pairing_wkdibe_g1_t*) malloc((size_t) n * sizeof(embedded_pairing_wkdibe_g1_t) + 0);
        if (embedded_pairing_wkdibe_params_set_length(&p, in.p, size, compressed) != n || p.l != n) fail("set_length");
        if (embedded_pairing_wkdibe_params_unmarshal(&p, in.p, compressed, checked)) {
            size_t m = embedded_pairing_wkdibe_params_get_marshalled_length(&p, compressed);
            if (m != embedded_pairing_wkdibe_params_marshalled_length(n, p.signatures, compressed)) fail("length functions disagree");
            if (m > size) fail("marshalled length larger than the accepted buffer");
            Block out(m, odd);
            embedded_pairing_wkdibe_params_marshal(out.p, &p, compressed);
            if (embedded_pairing_wkdibe_params_unmarshalled_length(out.p, m, compressed) != n) fail("length of re-marshalled buffer");
            embedded_pairing_wkdibe_params_t q;
            q.h = (embedded_pairing_wkdibe_g1_t*) malloc((size_t) n * sizeof(embedded_pairing_wkdibe_g1_t));
            embedded_pairing_wkdibe_params_set_length(&q, out.p, m, compressed);
            if (!embedded_pairing_wkdibe_params_unmarshal(&q, out.p, compressed, checked)) fail("re-marshalled parameters rejected");
            Block out2(m, odd);
            embedded_pairing_wkdibe_params_marshal(out2.p, &q, compressed);
            if (memcmp(out.p, out2.p, m) != 0) fail("marshal not stable");
            free(q.h);
        }
        free(p.h);
        return 0;
    }
    case 1: {   // WKD-IBE secret key
        Block in(data, size, odd);
        int n = embedded_pairing_wkdibe_secretkey_unmarshalled_length(in.p, size, compressed);
        if (n < -1) fail("length discovery returned a negative count other than -1 (callers only test for -1)");
        if (n < 0) return 0;
        embedded_pairing_wkdibe_secretkey_t k;
        k.b = (embedded_pairing_wkdibe_freeslot_t*) malloc((size_t) n * sizeof(embedded_pairing_wkdibe_freeslot_t));
        if (embedded_pairing_wkdibe_secretkey_set_length(&k, in.p, size, compressed) != n || k.l != n) fail("set_length");
        if (embedded_pairing_wkdibe_secretkey_unmarshal(&k, in.p, compressed, checked)) {
            size_t m = embedded_pairing_wkdibe_secretkey_get_marshalled_length(&k, compressed);
            if (m != embedded_pairing_wkdibe_secretkey_marshalled_length(n, k.signatures, compressed)) fail("length functions disagree");
            if (m > size) fail("marshalled length larger than the accepted buffer");
            Block out(m, odd);
            embedded_pairing_wkdibe_secretkey_marshal(out.p, &k, compressed);
            if (embedded_pairing_wkdibe_secretkey_unmarshalled_length(out.p, m, compressed) != n) fail("length of re-marshalled buffer");
            embedded_pairing_wkdibe_secretkey_t k2;
            k2.b = (embedded_pairing_wkdibe_freeslot_t*) malloc((size_t) n * sizeof(embedded_pairing_wkdibe_freeslot_t));
            embedded_pairing_wkdibe_secretkey_set_length(&k2, out.p, m, compressed);
            if (!embedded_pairing_wkdibe_secretkey_unmarshal(&k2, out.p, compressed, checked)) fail("re-marshalled key rejected");
            for (int i = 0; i != n; i++) {
                if (k2.b[i].idx != k.b[i].idx) fail("slot index changed");
            }
            Block out2(m, odd);
            embedded_pairing_wkdibe_secretkey_marshal(out2.p, &k2, compressed);
            if (memcmp(out.p, out2.p, m) != 0) fail("marshal not stable");
            free(k2.b);
        }
        free(k.b);
        return 0;
    }
#define FIXED(T, pfx) fixed_size<T>(data, size, pfx##_get_marshalled_length(compressed), odd, \
        [&](T* o, const void* b) { return pfx##_unmarshal(o, b, compressed, checked); }, [&](void* b, const T* o) { pfx##_marshal(b, o, compressed); }); return 0;
    case 2: FIXED(embedded_pairing_wkdibe_ciphertext_t, embedded_pairing_wkdibe_ciphertext)
    case 3: FIXED(embedded_pairing_wkdibe_signature_t, embedded_pairing_wkdibe_signature)
    case 4: FIXED(embedded_pairing_wkdibe_masterkey_t, embedded_pairing_wkdibe_masterkey)
    case 5: FIXED(embedded_pairing_lqibe_params_t, embedded_pairing_lqibe_params)
    case 6: FIXED(embedded_pairing_lqibe_id_t, embedded_pairing_lqibe_id)
    case 7: FIXED(embedded_pairing_lqibe_masterkey_t, embedded_pairing_lqibe_masterkey)
    case 8: FIXED(embedded_pairing_lqibe_secretkey_t, embedded_pairing_lqibe_secretkey)
    case 9: FIXED(embedded_pairing_lqibe_ciphertext_t, embedded_pairing_lqibe_ciphertext)
#undef FIXED
    case 10: {
        size_t want = compressed ? embedded_pairing_bls12_381_g1_marshalled_compressed_size : embedded_pairing_bls12_381_g1_marshalled_uncompressed_size;
        fixed_size<embedded_pairing_bls12_381_g1affine_t>(data, size, want, odd,
            [&](embedded_pairing_bls12_381_g1affine_t* o, const void* b) { return embedded_pairing_bls12_381_g1_unmarshal(o, b, compressed, checked); },
            [&](void* b, const embedded_pairing_bls12_381_g1affine_t* o) { embedded_pairing_bls12_381_g1_marshal(b, o, compressed); });
        return 0;
    }
    case 11: {
        size_t want = compressed ? embedded_pairing_bls12_381_g2_marshalled_compressed_size : embedded_pairing_bls12_381_g2_marshalled_uncompressed_size;
        fixed_size<embedded_pairing_bls12_381_g2affine_t>(data, size, want, odd,
            [&](embedded_pairing_bls12_381_g2affine_t* o, const void* b) { return embedded_pairing_bls12_381_g2_unmarshal(o, b, compressed, checked); },
            [&](void* b, const embedded_pairing_bls12_381_g2affine_t* o) { embedded_pairing_bls12_381_g2_marshal(b, o, compressed); });
        return 0;
    }
    case 12: {
        fixed_size<embedded_pairing_bls12_381_fq12_t>(data, size, embedded_pairing_bls12_381_gt_marshalled_size, odd,
            [&](embedded_pairing_bls12_381_fq12_t* o, const void* b) { embedded_pairing_bls12_381_gt_unmarshal(o, b); return true; },
            [&](void* b, const embedded_pairing_bls12_381_fq12_t* o) { embedded_pairing_bls12_381_gt_marshal(b, o); });
        return 0;
    }
    }
    return 0;
}
