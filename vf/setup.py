"""./check --setup: verify the tool chain and pre-build the default configuration (offline)."""
import shutil
import sys


def main():
    missing = [t for t in ("clang++", "g++", "as", "nm", "llvm-objdump") if shutil.which(t) is None]
    if missing:
        sys.stderr.write("missing tools: %s\n" % missing)
        return 2
    import hypothesis  # noqa: F401
    from .ref import fields
    fields.self_test()
    from . import build
    so = build.build_shim("asm")
    print("setup ok: hypothesis %s, shim %s" % (hypothesis.__version__, so))
    return 0
