"""Builds of the repository's working tree (never writes into the repo).

Every artefact lives under /verif/build/<cfg>-<key>/ where key = SHA-256 over every
file under src/ and include/ of the tree being tested, the shim sources and the flag
set, so an edited tree can never pick up a stale object.
"""
import hashlib
import os
import shutil
import subprocess
import sys
import fcntl
from concurrent.futures import ThreadPoolExecutor

VERIF = os.path.dirname(os.path.dirname(os.path.abspath(__file__)))
BUILD = os.environ.get("VERIF_BUILD_DIR") or os.path.join(VERIF, "build")
GUARD = "JEDI_PAIRING_VERIF"


def repo():
    return os.environ.get("JEDI_REPO", "/repo")


CONFIGS = {
    # name: (compiler, extra flags, use asm)
    "asm": ("clang++", [], True),
    "p64": ("clang++", ["-DDISABLE_ASM"], False),
    "p32": ("clang++", ["-DDISABLE_ASM", "-U__SIZEOF_INT128__"], False),
    # unoptimised portable build: code that is only right because the optimiser happens to reorder it (an aliased __restrict operand,
    # an uninitialised temporary) behaves differently here
    "p64-O0": ("clang++", ["-DDISABLE_ASM", "-O0", "-fno-fast-math"], False),
    "asm-san": ("g++", ["-fsanitize=address,undefined", "-fno-sanitize-recover=undefined", "-fno-omit-frame-pointer"], True),
    "p64-san": ("g++", ["-DDISABLE_ASM", "-fsanitize=address,undefined", "-fno-sanitize-recover=undefined", "-fno-omit-frame-pointer"], False),
    "p32-san": ("g++", ["-DDISABLE_ASM", "-U__SIZEOF_INT128__", "-fsanitize=address,undefined", "-fno-sanitize-recover=undefined", "-fno-omit-frame-pointer"], False),
    # ARM binding layer on the host: portable build + the ARM specialisation headers force-included; the assembly symbols are
    # provided by shim/extra/glue_*.cpp (plain C), the real assembly is executed by vf/arm under interpreters
    # (plain char is unsigned on the ARM ABIs: -funsigned-char makes code that stores -1 in a char behave as it does there)
    "glue-a64": ("clang++", ["-DDISABLE_ASM", "-funsigned-char", "-include", "core/arch/aarch64/bigint.hpp", "-include", "core/arch/aarch64/fp.hpp"], False),
    "glue-v6m": ("clang++", ["-DDISABLE_ASM", "-U__SIZEOF_INT128__", "-funsigned-char", "-include", "core/arch/armv6_m/bigint.hpp", "-include", "core/arch/armv6_m/fp.hpp"], False),
}
# per-configuration extra sources: (files under /verif, files under the repository)
CONFIG_EXTRA = {
    "glue-a64": (["shim/extra/glue_a64.cpp"], []),
    "glue-v6m": (["shim/extra/glue_v6m.cpp"], ["src/core/arch/armv6_m/fp.cpp"]),
}

BASE_FLAGS = ["-std=c++17", "-fPIC", "-g0", "-D" + GUARD]
OPT = {"clang++": ["-Ofast", "-fno-vectorize"], "g++": ["-O1"]}


def _files(root, sub, exts):
    out = []
    for d, _, fs in os.walk(os.path.join(root, sub)):
        for f in sorted(fs):
            if f.endswith(exts):
                out.append(os.path.join(d, f))
    return sorted(out)


def tree_hash(extra=()):
    h = hashlib.sha256()
    r = repo()
    for p in _files(r, "src", (".cpp", ".s", ".hpp", ".h")) + _files(r, "include", (".hpp", ".h")) + list(extra):
        h.update(os.path.relpath(p, r).encode() if p.startswith(r) else os.path.basename(p).encode())
        with open(p, "rb") as f:
            h.update(hashlib.sha256(f.read()).digest())
    return h


def lib_sources(use_asm):
    r = repo()
    srcs = []
    for sub in ("src/core", "src/bls12_381", "src/wkdibe", "src/lqibe"):
        d = os.path.join(r, sub)
        if os.path.isdir(d):
            srcs += sorted(os.path.join(d, f) for f in os.listdir(d) if f.endswith(".cpp"))
    asm = []
    if use_asm:
        d = os.path.join(r, "src/core/arch/x86_64")
        srcs += sorted(os.path.join(d, f) for f in os.listdir(d) if f.endswith(".cpp"))
        asm = sorted(os.path.join(d, f) for f in os.listdir(d) if f.endswith(".s"))
    return srcs, asm


def _run(cmd, **kw):
    p = subprocess.run(cmd, stdout=subprocess.PIPE, stderr=subprocess.STDOUT, text=True, **kw)
    if p.returncode != 0:
        raise BuildError("command failed: %s\n%s" % (" ".join(cmd), p.stdout[-6000:]))
    return p.stdout


class BuildError(Exception):
    pass


def _prune(prefix, keep):
    """Keep only the most recent few build directories of one configuration."""
    try:
        ds = [d for d in os.listdir(BUILD) if d.startswith(prefix + "-")]
    except FileNotFoundError:
        return
    ds.sort(key=lambda d: os.path.getmtime(os.path.join(BUILD, d)), reverse=True)
    for d in ds[keep:]:
        shutil.rmtree(os.path.join(BUILD, d), ignore_errors=True)


def build_shim(cfg, extra_sources=(), tag="shim", extra_flags=()):
    """Build lib + shim into one shared object for configuration cfg. Returns path."""
    cxx, flags, use_asm = CONFIGS[cfg]
    shim_dir = os.path.join(VERIF, "shim")
    ev, er = CONFIG_EXTRA.get(cfg, ([], []))
    shim_srcs = sorted(os.path.join(shim_dir, f) for f in os.listdir(shim_dir) if f.endswith(".cpp")) + list(extra_sources) + [os.path.join(VERIF, f) for f in ev] + [os.path.join(repo(), f) for f in er]
    shim_deps = _files(VERIF, "shim", (".cpp", ".def", ".hpp", ".h"))
    h = tree_hash(shim_deps)
    h.update(repr((cfg, cxx, flags, sorted(extra_flags), tag, [os.path.basename(x) for x in shim_srcs], "v2")).encode())
    key = h.hexdigest()[:20]
    out_dir = os.path.join(BUILD, "%s-%s-%s" % (tag, cfg, key))
    so = os.path.join(out_dir, "libjedi.so")
    if os.path.exists(so):
        os.utime(out_dir)
        return so
    os.makedirs(BUILD, exist_ok=True)
    lock = open(os.path.join(BUILD, ".lock-%s-%s" % (tag, cfg)), "w")
    fcntl.flock(lock, fcntl.LOCK_EX)
    try:
        if os.path.exists(so):
            return so
        tmp = out_dir + ".tmp%d" % os.getpid()
        shutil.rmtree(tmp, ignore_errors=True)
        os.makedirs(tmp)
        srcs, asm = lib_sources(use_asm)
        inc = ["-I" + os.path.join(repo(), "include"), "-I" + shim_dir, "-I" + os.path.join(shim_dir, "extra")]
        allflags = BASE_FLAGS + OPT[cxx] + flags + list(extra_flags) + inc
        jobs = []
        objs = []
        for i, s in enumerate(srcs + shim_srcs):
            o = os.path.join(tmp, "o%d_%s.o" % (i, os.path.basename(s).replace(".cpp", "")))
            objs.append(o)
            jobs.append([cxx] + allflags + ["-c", s, "-o", o])
        for i, s in enumerate(asm):
            o = os.path.join(tmp, "a%d_%s.o" % (i, os.path.basename(s).replace(".s", "")))
            objs.append(o)
            jobs.append(["as", s, "-o", o])
        with ThreadPoolExecutor(max_workers=min(16, os.cpu_count() or 4)) as ex:
            list(ex.map(_run, jobs))
        link = [cxx, "-shared", "-o", os.path.join(tmp, "libjedi.so")] + objs + ["-Wl,-Bsymbolic", "-Wl,-z,noexecstack"]
        if "san" in cfg:
            link += ["-fsanitize=address,undefined"]
        _run(link)
        for o in objs:
            os.unlink(o)
        shutil.rmtree(out_dir, ignore_errors=True)
        os.rename(tmp, out_dir)
        _prune("%s-%s" % (tag, cfg), 3)
        return so
    finally:
        fcntl.flock(lock, fcntl.LOCK_UN)
        lock.close()


def build_objects(tag, cxx, flags, use_asm, opt=None, sources=None):
    """Compile the library into object files (for nm audits / static linking). Returns dir."""
    h = tree_hash()
    h.update(repr((tag, cxx, flags, use_asm, opt)).encode())
    key = h.hexdigest()[:20]
    out_dir = os.path.join(BUILD, "%s-%s" % (tag, key))
    if os.path.exists(os.path.join(out_dir, ".done")):
        os.utime(out_dir)
        return out_dir
    os.makedirs(BUILD, exist_ok=True)
    tmp = out_dir + ".tmp%d" % os.getpid()
    shutil.rmtree(tmp, ignore_errors=True)
    os.makedirs(tmp)
    srcs, asm = lib_sources(use_asm)
    if sources is not None:
        srcs, asm = sources
    inc = ["-I" + os.path.join(repo(), "include")]
    jobs = []
    for i, s in enumerate(srcs):
        o = os.path.join(tmp, "%s_%d.o" % (os.path.basename(s).replace(".cpp", ""), i))
        jobs.append([cxx, "-std=c++17"] + (opt or OPT[cxx.split("-")[0] if cxx.startswith("clang") else cxx]) + list(flags) + inc + ["-c", s, "-o", o])
    for i, s in enumerate(asm):
        o = os.path.join(tmp, "%s_%d.o" % (os.path.basename(s).replace(".s", ""), i))
        jobs.append(["as", s, "-o", o])
    with ThreadPoolExecutor(max_workers=16) as ex:
        list(ex.map(_run, jobs))
    open(os.path.join(tmp, ".done"), "w").close()
    shutil.rmtree(out_dir, ignore_errors=True)
    os.rename(tmp, out_dir)
    _prune(tag, 2)
    return out_dir


if __name__ == "__main__":
    for c in sys.argv[1:] or ["asm"]:
        print(c, build_shim(c))
