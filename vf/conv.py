"""Conversions between Python reference values and the library's in-memory images."""
from .ref import fields as F

Q, R = F.Q, F.R_ORDER


def bi(v, bits):
    return (v & ((1 << bits) - 1)).to_bytes(bits // 8, "little")


def ib(b):
    return int.from_bytes(b, "little")


# Montgomery view
def fq_raw(v):
    return v * F.FQ_R % Q


def fq_val(raw):
    return raw * F.FQ_RINV % Q


def fr_raw(v):
    return v * F.FR_R % R


def fr_val(raw):
    return raw * F.FR_RINV % R


def fq_b(v):
    """Fq value -> image (Montgomery form)."""
    return bi(fq_raw(v), 384)


def b_fq(b):
    return fq_val(ib(b))


def fq2_b(a):
    return fq_b(a[0]) + fq_b(a[1])


def b_fq2(b):
    return (b_fq(b[0:48]), b_fq(b[48:96]))


def fq6_b(a):
    return b"".join(fq2_b(x) for x in a)


def b_fq6(b):
    return tuple(b_fq2(b[96 * i:96 * i + 96]) for i in range(3))


def fq12_b(a):
    return fq6_b(a[0]) + fq6_b(a[1])


def b_fq12(b):
    return (b_fq6(b[0:288]), b_fq6(b[288:576]))


def raws(b):
    """All raw 384-bit words of an image (for canonicity checks)."""
    return [ib(b[i:i + 48]) for i in range(0, len(b) - len(b) % 48, 48)]


# points. Reference points: None (identity) or (x, y); projective images take a z.
def g1_proj_b(P, z=1, junk=(0, 1)):
    """Jacobian image of affine reference point P with the given z (z != 0)."""
    if P is None:
        return fq_b(junk[0]) + fq_b(junk[1]) + fq_b(0)
    x, y = P
    z %= Q
    return fq_b(x * z * z % Q) + fq_b(y * z * z * z % Q) + fq_b(z)


def g2_proj_b(P, z=(1, 0), junk=((0, 0), (1, 0))):
    if P is None:
        return fq2_b(junk[0]) + fq2_b(junk[1]) + fq2_b((0, 0))
    x, y = P
    z2 = F.fq2_mul(z, z)
    z3 = F.fq2_mul(z2, z)
    return fq2_b(F.fq2_mul(x, z2)) + fq2_b(F.fq2_mul(y, z3)) + fq2_b(z)


def b_g1_proj(b):
    """Jacobian image -> affine reference point (normalised by the reference's own inversion)."""
    x, y, z = b_fq(b[0:48]), b_fq(b[48:96]), b_fq(b[96:144])
    if z == 0:
        return None
    zi = F.fq_inv(z)
    return (x * zi * zi % Q, y * zi * zi * zi % Q)


def b_g2_proj(b):
    x, y, z = b_fq2(b[0:96]), b_fq2(b[96:192]), b_fq2(b[192:288])
    if z == (0, 0):
        return None
    zi = F.fq2_inv(z)
    zi2 = F.fq2_mul(zi, zi)
    return (F.fq2_mul(x, zi2), F.fq2_mul(y, F.fq2_mul(zi2, zi)))


def g1_aff_b(lib, P, junk=(0, 1)):
    size = lib.sizeof("G1Affine")
    off = lib.inf_off[1]
    if P is None:
        body = fq_b(junk[0]) + fq_b(junk[1])
        inf = 1
    else:
        body = fq_b(P[0]) + fq_b(P[1])
        inf = 0
    return body + bytes([inf]) * 1 + bytes(size - off - 1) if off == 96 else None


def g2_aff_b(lib, P, junk=((0, 0), (1, 0))):
    size = lib.sizeof("G2Affine")
    off = lib.inf_off[2]
    assert off == 192
    if P is None:
        body = fq2_b(junk[0]) + fq2_b(junk[1])
        inf = 1
    else:
        body = fq2_b(P[0]) + fq2_b(P[1])
        inf = 0
    return body + bytes([inf]) + bytes(size - off - 1)


def b_g1_aff(lib, b):
    if b[lib.inf_off[1]] != 0:
        return None
    return (b_fq(b[0:48]), b_fq(b[48:96]))


def b_g2_aff(lib, b):
    if b[lib.inf_off[2]] != 0:
        return None
    return (b_fq2(b[0:96]), b_fq2(b[96:192]))


def px_pack(lib, digits):
    """PowersOfX image: four BigInt<64> (whose size is one dword of the configuration)."""
    st = lib.sizeof("BigInt<64>")
    return b"".join(bi(d, 64) + bytes(st - 8) for d in digits)


def px_unpack(lib, b):
    st = lib.sizeof("BigInt<64>")
    return [ib(b[st * i:st * i + 8]) for i in range(4)]
