"""C15 - Scheme objects survive marshalling unchanged and length accounting is exact."""
import ctypes

from hypothesis import strategies as st

from .. import conv, gens, wk as wkmod
from ..ref import curve as C
from ..ref import fields as F
from ..ref import pairing as PR
from ..runner import Sub, expect
from . import c05, c09

RULE = ("Generated: WKD-IBE parameters (l in 0..12, signatures on/off), master keys, secret keys (0..12 free slots with ascending "
        "32-bit indices incl. values >= 256 and >= 65536, signatures on/off), ciphertexts, signatures and the five LQ-IBE objects, built "
        "from reference points t*G in arbitrary Jacobian representatives (identity elements included), in both encodings; then "
        "single-element corruptions of the valid buffer (off-curve, outside the subgroup, not reduced below q, junk flag bits, wrong form "
        "flag) placed in each embedded G1/G2 element in turn. Oracle: unmarshal(marshal(x)) == x field by field (projective equality; "
        "compressed parameters recompute the pairing), re-marshalling reproduces the bytes, exactly get_marshalled_length bytes are "
        "written (guard bytes behind the buffer untouched), the length recovered from the buffer == slot count, free-slot indices are "
        "big-endian on the wire, checked unmarshal rejects every corrupted buffer. The length functions are additionally enumerated "
        "exhaustively for l in 0..64 x signatures x encoding, including every non-grid length in between (-1 expected).")
ASSUMPTIONS = ["reference points and encodings (C09)", "wire layout of the objects is the observed one (signature byte, elements in declaration order, 4-byte big-endian slot index)",
               "GT fields are not validated by design and are excluded from the corruption set"]

R, Q = F.R_ORDER, F.Q
KINDS = ("params", "msk", "sk", "ct", "sig", "lq_params", "lq_id", "lq_msk", "lq_sk", "lq_ct")
WKK = {"params": 0, "msk": 1, "sk": 2, "ct": 3, "sig": 4}
LQK = {"lq_params": 0, "lq_id": 1, "lq_msk": 2, "lq_sk": 3, "lq_ct": 4}


@st.composite
def pt(draw, g, allow_identity=True):
    t = draw(st.one_of(st.sampled_from((1, 2, R - 1) + ((0,) if allow_identity else ())), st.integers(1, R - 1)))
    return {"t": t, "z": draw(c05.zval(g))[1]}


@st.composite
def cases(draw):
    kind = draw(st.sampled_from(KINDS))
    c = {"kind": kind, "comp": draw(st.booleans()), "sigs": draw(st.booleans()), "corrupt": draw(st.sampled_from(("none", "none", "offcurve", "subgroup", "plus_q", "junk", "form", "junk_first"))),
         "which": draw(st.integers(0, 40)), "x": draw(c05.fe(1)), "bits": draw(st.integers(1, 7)), "gt": draw(st.integers(0, R - 1)),
         # receiving params / key objects: slot count recorded by set_length (the wrappers' protocol), or already right in a re-used object
         # whose signature flag is stale (unmarshal itself has to take the flag from the buffer)
         "preset": draw(st.integers(0, 3)) == 0}
    if kind == "params":
        n = draw(st.integers(0, 12))
        c["g2s"] = [draw(pt(2)) for _ in range(2)]
        c["g1s"] = [draw(pt(1)) for _ in range(3 + n)]
        c["n"] = n
    elif kind == "sk":
        n = draw(st.integers(0, 12))
        idxs = sorted(set(draw(st.lists(st.one_of(st.integers(0, 300), st.sampled_from((255, 256, 257, 65535, 65536, 0x01020304, 2**32 - 1, 2**31)), st.integers(0, 2**32 - 1)),
                                    min_size=n, max_size=n))))
        c["idxs"] = idxs
        c["g1s"] = [draw(pt(1)) for _ in range(2 + len(idxs))]
        c["g2s"] = [draw(pt(2))]
    elif kind in ("ct", "sig", "msk"):
        c["g1s"] = [draw(pt(1))]
        c["g2s"] = [draw(pt(2))]
    elif kind == "lq_params":
        c["g2s"] = [draw(pt(2)) for _ in range(2)]
    elif kind in ("lq_id", "lq_sk"):
        c["g1s"] = [draw(pt(1))]
    elif kind == "lq_ct":
        c["g2s"] = [draw(pt(2))]
    else:
        c["s"] = draw(gens.scalars(256))[1]
    return c


def g1img(p):
    return conv.g1_proj_b(C.gen_mul(1, p["t"]), p["z"])


def g2img(p):
    return conv.g2_proj_b(C.gen_mul(2, p["t"]), tuple(p["z"]))


def bad_element(lib, g, comp, how, c):
    """An invalid encoding of a G1/G2 element of the given form."""
    K = c05.KK(g)
    n = c09.enc_len(g, comp)
    P = C.gen_mul(g, 5 + c["which"])
    good = c09.lib_encode(lib, g, P, comp)[0]
    cs = c09.coeffs(g, good)
    if how == "offcurve":
        if comp:
            # an x without y
            x = c["x"] if g == 1 else (c["x"], 1)
            while C.lift_x(x, K, 0) is not None:
                x = K.add(x, K.one)
            ws = [x] if g == 1 else [x[1], x[0]]
            ws[0] |= 0x80 << 376
            return c09.from_coeffs(ws)
        return c09.lib_encode(lib, g, (P[0], K.add(P[1], K.one)), comp)[0]
    if how == "subgroup":
        x = c["x"] if g == 1 else (c["x"], 3)
        Pn = None
        while Pn is None:
            Pn = C.lift_x(x, K, 0)
            x = K.add(x, K.one)
        return c09.lib_encode(lib, g, Pn, comp)[0]
    if how == "plus_q":
        flags = cs[0] >> 381
        body = [v & c09.M381 if k == 0 else v for k, v in enumerate(cs)]
        for k in range(len(body)):
            if body[k] + Q <= c09.M381:
                body[k] += Q
                body[0] |= flags << 381
                return c09.from_coeffs(body)
        how = "junk_first"
    if how == "junk" and len(cs) > 1:
        cs[1 + c["which"] % (len(cs) - 1)] |= c["bits"] << 381
        return c09.from_coeffs(cs)
    if how == "form":
        return bytes([good[0] ^ 0x80]) + good[1:]
    # junk_first: set the infinity flag on a finite point's bytes
    return bytes([good[0] | 0x40]) + good[1:]


def element_layout(kind, comp, sigs, n):
    """[(offset, group)] of the embedded G1/G2 elements and the total length, from the documented layouts."""
    e1, e2 = c09.enc_len(1, comp), c09.enc_len(2, comp)
    out = []
    off = 0
    def add(g):
        nonlocal off
        out.append((off, g))
        off += e1 if g == 1 else e2
    if kind == "params":
        off = 1
        add(2); add(2); add(1); add(1)
        if not comp:
            off += 576
        if sigs:
            add(1)
        for _ in range(n):
            add(1)
    elif kind == "sk":
        off = 1
        add(1); add(2)
        if sigs:
            add(1)
        for _ in range(n):
            add(1)
            off += 4
    elif kind == "ct":
        off = 576
        add(2); add(1)
    elif kind == "sig":
        add(1); add(2)
    elif kind in ("msk", "lq_id", "lq_sk"):
        add(1)
    elif kind == "lq_params":
        add(2); add(2)
    elif kind == "lq_ct":
        add(2)
    elif kind == "lq_msk":
        off = 32
    return out, off


def check(ctx, lib, c):
    W = wkmod.WK(lib)
    try:
        _check(ctx, lib, W, c)
    finally:
        W.close()


def _check(ctx, lib, W, c, obs=None):
    """obs: optional list collecting everything observable through the interface (lengths, wire bytes, verdicts, re-marshalled bytes);
    C19 runs the same case through the C symbols and through the C++ functions and compares the two lists."""
    kind, comp, sigs = c["kind"], c["comp"], c["sigs"]
    d = W.d
    for n_ in ("vf_lq_marshalled_length", "vf_lq_unmarshal", "vf_lq_sizeof"):
        getattr(d, n_).restype = ctypes.c_long
    d.vf_lq_marshal.restype = None
    g1sz, g2sz = W.g1sz, W.g2sz
    nslots = 0
    # ---- build the object ------------------------------------------------------------------------
    if kind == "params":
        n = c["n"]
        nslots = n
        obj = W.params_new(n)
        g, g1 = g2img(c["g2s"][0]), g2img(c["g2s"][1])
        g2, g3, hsig = g1img(c["g1s"][0]), g1img(c["g1s"][1]), g1img(c["g1s"][2])
        if not sigs:
            hsig = lib.const("g1_zero")
        pairing = W.pairing(g2, g1)
        for f, v in ((0, g), (1, g1), (2, g2), (3, g3), (4, pairing), (5, hsig)):
            d.vf_wk_set(0, obj, f, 0, v, 0)
        d.vf_wk_set(0, obj, 6, 0, None, 1 if sigs else 0)
        hs = [g1img(p) for p in c["g1s"][3:3 + n]]
        for i, hv in enumerate(hs):
            d.vf_wk_set(0, obj, 8, i, hv, 0)
        fields = {"g": g, "g1": g1, "g2": g2, "g3": g3, "pairing": pairing, "hsig": hsig, "h": hs}
    elif kind == "sk":
        idxs = c["idxs"]
        n = len(idxs)
        nslots = n
        obj = W.sk_new(n)
        a0, bsig = g1img(c["g1s"][0]), g1img(c["g1s"][1])
        if not sigs:
            bsig = lib.const("g1_zero")
        a1 = g2img(c["g2s"][0])
        d.vf_wk_set(2, obj, 0, 0, a0, 0)
        d.vf_wk_set(2, obj, 1, 0, a1, 0)
        d.vf_wk_set(2, obj, 4, 0, bsig, 0)
        d.vf_wk_set(2, obj, 2, 0, None, n)
        d.vf_wk_set(2, obj, 3, 0, None, 1 if sigs else 0)
        bs = [g1img(p) for p in c["g1s"][2:2 + n]]
        for i in range(n):
            d.vf_wk_set(2, obj, 5, i, None, idxs[i])
            d.vf_wk_set(2, obj, 6, i, bs[i], 0)
        fields = {"a0": a0, "a1": a1, "bsig": bsig, "idx": idxs, "b": bs}
    elif kind in ("msk", "ct", "sig"):
        gt = conv.fq12_b(F.flat_to_tower(PR.gt_pow_gen(c["gt"])))
        p1, p2 = g1img(c["g1s"][0]), g2img(c["g2s"][0])
        img = {"msk": p1, "ct": gt + p2 + p1, "sig": p1 + p2}[kind]
        obj = W.blob(WKK[kind])
        ctypes.memmove(obj, img, len(img))
        fields = {"img": img}
    else:
        if kind == "lq_params":
            img = g2img(c["g2s"][0]) + g2img(c["g2s"][1])
        elif kind in ("lq_id", "lq_sk"):
            img = c05.aff_b(lib, 1, C.gen_mul(1, c["g1s"][0]["t"]), (0, 1))
        elif kind == "lq_ct":
            img = c05.aff_b(lib, 2, C.gen_mul(2, c["g2s"][0]["t"]), ((0, 0), (1, 0)))
        else:
            img = conv.bi(c["s"], 256)
        obj = W.buf(d.vf_lq_sizeof(LQK[kind]))
        ctypes.memmove(obj, img, len(img))
        fields = {"img": img}
    iswk = kind in WKK
    # ---- marshal into an exact-size buffer with guard bytes -----------------------------------------
    if iswk:
        mlen = d.vf_wk_marshalled_length(WKK[kind], obj, 1 if comp else 0)
    else:
        mlen = d.vf_lq_marshalled_length(LQK[kind], 1 if comp else 0)
    layout, explen = element_layout(kind, comp, sigs, nslots)
    sig_ = "%s/%s" % (kind, "compressed" if comp else "uncompressed")
    expect(mlen == explen, sig_ + "/marshalled-length", lambda: "get_marshalled_length=%d, layout says %d (slots=%d sigs=%r)" % (mlen, explen, nslots, sigs))
    buf = W.buf(mlen + 32)
    ctypes.memset(buf, 0xEE, mlen + 32)
    if iswk:
        d.vf_wk_marshal(WKK[kind], buf, obj, 1 if comp else 0)
    else:
        d.vf_lq_marshal(LQK[kind], buf, obj, 1 if comp else 0)
    raw = ctypes.string_at(buf, mlen + 32)
    wire, guard = raw[:mlen], raw[mlen:]
    if obs is not None:
        obs += [("marshalled_length", mlen), ("wire", raw)]
    expect(guard == b"\xEE" * 32, sig_ + "/marshal-overrun", "marshal wrote beyond get_marshalled_length bytes")
    expect(b"\xEE\xEE\xEE\xEE\xEE\xEE\xEE\xEE" not in wire or kind == "lq_msk", sig_ + "/marshal-underrun", "marshal left part of the buffer unwritten")
    if kind == "sk":
        off = 1 + c09.enc_len(1, comp) + c09.enc_len(2, comp) + (c09.enc_len(1, comp) if sigs else 0)
        for i, ix in enumerate(fields["idx"]):
            o = off + i * (c09.enc_len(1, comp) + 4) + c09.enc_len(1, comp)
            expect(wire[o:o + 4] == ix.to_bytes(4, "big"), sig_ + "/slot-index-wire", lambda: "slot %d index %#x on the wire as %s" % (i, ix, wire[o:o + 4].hex()))
    # ---- optional corruption of one embedded element -------------------------------------------------
    corrupt = c["corrupt"]
    data = wire
    if corrupt != "none" and layout:
        off, g = layout[c["which"] % len(layout)]
        bad = bad_element(lib, g, comp, corrupt, c)
        data = wire[:off] + bad + wire[off + len(bad):]
    elif corrupt != "none":
        corrupt = "none"
    dbuf = W.buf(len(data))
    ctypes.memmove(dbuf, data, len(data))
    # ---- length discovery and unmarshal into a fresh object ---------------------------------------------
    if kind in ("params", "sk"):
        k = WKK[kind]
        n1 = d.vf_wk_length_from(k, None, dbuf, len(data), 1 if comp else 0, 1)
        expect(n1 == nslots, sig_ + "/unmarshalled-length", lambda: "recovered %d slots, object has %d" % (n1, nslots))
        new = W.params_new(nslots) if kind == "params" else W.sk_new(nslots)
        if c.get("preset") and obs is None:
            # a re-used object that already has the right slot count and the opposite signature flag; no set_length call
            if kind == "params":
                d.vf_wk_set(0, new, 6, 0, None, 0 if sigs else 1)
            else:
                d.vf_wk_set(2, new, 2, 0, None, nslots)
                d.vf_wk_set(2, new, 3, 0, None, 0 if sigs else 1)
            ctx.event("receiver-preset-length-stale-flag")
        else:
            n2 = d.vf_wk_length_from(k, new, dbuf, len(data), 1 if comp else 0, 0)
            expect(n2 == nslots and W.get(k, new, 7 if kind == "params" else 2) == nslots, sig_ + "/set-length", "set_length did not record the slot count")
    elif iswk:
        new = W.blob(WKK[kind])
    else:
        new = W.buf(d.vf_lq_sizeof(LQK[kind]))
    def unm(o, checked):
        if iswk:
            return d.vf_wk_unmarshal(WKK[kind], o, dbuf, 1 if comp else 0, 1 if checked else 0) != 0
        return d.vf_lq_unmarshal(LQK[kind], o, dbuf, 1 if comp else 0, 1 if checked else 0) != 0
    if obs is None and (c.get("which", 0) // 3 + c.get("bits", 0)) % 2 == 1:
        # the caller first loaded the buffer without validation into the object that now receives the validating load (any outcome
        # is allowed for the first load); the validating verdict is a function of the bytes, not of what the object already holds
        unm(new, False)
        ctx.event("unvalidated-load-first")
    ok = unm(new, True)
    if obs is not None:
        # verdicts of both modes on the (possibly corrupted) buffer, and what an accepted object marshals to
        def fresh():
            if kind in ("params", "sk"):
                o = W.params_new(nslots) if kind == "params" else W.sk_new(nslots)
                obs.append(("set_length", d.vf_wk_length_from(WKK[kind], o, dbuf, len(data), 1 if comp else 0, 0)))
                return o
            return W.blob(WKK[kind]) if iswk else W.buf(d.vf_lq_sizeof(LQK[kind]))
        for checked in (True, False):
            o = fresh()
            v = unm(o, checked)
            obs.append(("unmarshal", checked, v))
            if v:
                b_ = W.buf(mlen + 128)
                if iswk:
                    d.vf_wk_marshal(WKK[kind], b_, o, 1 if comp else 0)
                else:
                    d.vf_lq_marshal(LQK[kind], b_, o, 1 if comp else 0)
                obs.append(("remarshal", checked, ctypes.string_at(b_, mlen)))
    ctx.count(c, corrupt != "none" or nslots >= 2 or kind.startswith("lq"), "%s-%s-%s" % (kind, "c" if comp else "u", corrupt))
    if corrupt != "none":
        expect(not ok, sig_ + "/accepted-corrupted/" + corrupt, lambda: "checked unmarshal accepted a buffer whose element at offset %d is invalid (%s)" % (layout[c["which"] % len(layout)][0], corrupt))
        return
    expect(ok, sig_ + "/rejected-valid", lambda: "checked unmarshal rejected its own marshalled bytes %s" % wire.hex()[:200])
    if kind in ("params", "sk"):
        expect((W.d.vf_wk_params_guard(new) if kind == "params" else W.sk_guard(new)) == 0, sig_ + "/unmarshal-overrun", "unmarshal wrote beyond the reported slot count")
    # ---- equality, field by field -------------------------------------------------------------------------
    if kind == "params":
        v = W.params_view(new)
        for name in ("g", "g1"):
            expect(W.g2_eq(v[name], fields[name]), sig_ + "/field-" + name, "differs after round trip")
        for name in ("g2", "g3"):
            expect(W.g1_eq(v[name], fields[name]), sig_ + "/field-" + name, "differs after round trip")
        expect(v["signatures"] == sigs and v["l"] == nslots, sig_ + "/field-flags", "signatures / l differ")
        if sigs:
            expect(W.g1_eq(v["hsig"], fields["hsig"]), sig_ + "/field-hsig", "differs after round trip")
        expect(all(W.g1_eq(a, b) for a, b in zip(v["h"], fields["h"])), sig_ + "/field-h", "h[] differs after round trip")
        expect(v["pairing"] == fields["pairing"], sig_ + "/field-pairing", "pairing value differs (recomputed for compressed)")
    elif kind == "sk":
        v = W.sk_view(new, max_slots=nslots)
        expect(W.g1_eq(v["a0"], fields["a0"]) and W.g2_eq(v["a1"], fields["a1"]), sig_ + "/field-a", "a0/a1 differ")
        expect(v["l"] == nslots and v["signatures"] == sigs, sig_ + "/field-flags", "l / signatures differ")
        if sigs:
            expect(W.g1_eq(v["bsig"], fields["bsig"]), sig_ + "/field-bsig", "bsig differs")
        expect(v["idx"] == fields["idx"], sig_ + "/field-idx", lambda: "indices %r became %r" % (fields["idx"], v["idx"]))
        expect(all(W.g1_eq(a, b) for a, b in zip(v["b"], fields["b"])), sig_ + "/field-b", "b[] differs")
    # re-marshalling the unmarshalled object reproduces the bytes (covers the flat objects field by field as well)
    import os as _os
    pad = 0 if _os.environ.get("VERIF_SAN") == "1" else 128       # exact-size under sanitizers, guard bytes otherwise
    buf2 = W.buf(mlen + pad)
    if iswk:
        d.vf_wk_marshal(WKK[kind], buf2, new, 1 if comp else 0)
    else:
        d.vf_lq_marshal(LQK[kind], buf2, new, 1 if comp else 0)
    expect(ctypes.string_at(buf2, mlen + pad)[mlen:] == b"\xCD" * pad, sig_ + "/remarshal-overrun", "marshalling the unmarshalled object wrote beyond get_marshalled_length bytes")
    expect(ctypes.string_at(buf2, mlen) == wire, sig_ + "/remarshal", "unmarshal(marshal(x)) re-marshals to different bytes")
    if kind == "params" and comp and obs is None:
        # related loads. (1) The receiving object already holds exactly these elements but another pairing value (as after an
        # unvalidated load of an uncompressed buffer whose pairing field was wrong): the compressed load recomputes it all the same.
        wrong = W.pairing(fields["g3"], fields["g"])
        d.vf_wk_set(0, new, 4, 0, wrong, 0)
        expect(unm(new, True), sig_ + "/after-related-call/rejected-valid", "second load of the same bytes into the same object failed")
        expect(W.params_view(new)["pairing"] == fields["pairing"], sig_ + "/after-related-call/stale-pairing",
               "compressed load into an object that already held these elements kept the object's old pairing value")
        # (2) Right afterwards, parameters that share their first element with these but have another g1: the pairing is that of the
        # new pair.
        g1b = fields["g"]
        pairing_b = W.pairing(fields["g2"], g1b)
        d.vf_wk_set(0, obj, 1, 0, g1b, 0)
        d.vf_wk_set(0, obj, 4, 0, pairing_b, 0)
        bufb = W.buf(mlen + 32)
        d.vf_wk_marshal(WKK[kind], bufb, obj, 1)
        d.vf_wk_set(0, obj, 1, 0, fields["g1"], 0)
        d.vf_wk_set(0, obj, 4, 0, fields["pairing"], 0)
        ctypes.memmove(dbuf, bufb, mlen)
        newb = W.params_new(nslots)
        d.vf_wk_length_from(WKK[kind], newb, dbuf, mlen, 1, 0)
        okb = unm(newb, True)
        ctypes.memmove(dbuf, data, len(data))
        expect(okb, sig_ + "/after-related-call/rejected-valid", "parameters sharing g with the previous ones were rejected")
        expect(W.params_view(newb)["pairing"] == pairing_b, sig_ + "/after-related-call/pairing-of-previous-load",
               "parameters sharing their first element with the previously loaded ones: the recomputed pairing is not e(g2, g1) of the new pair")
        ctx.event("related-parameter-loads")
    # unchecked unmarshal of valid bytes gives the same object
    if kind in ("params", "sk"):
        new2 = W.params_new(nslots) if kind == "params" else W.sk_new(nslots)
        d.vf_wk_length_from(WKK[kind], new2, dbuf, len(data), 1 if comp else 0, 0)
    elif iswk:
        new2 = W.blob(WKK[kind])
    else:
        new2 = W.buf(d.vf_lq_sizeof(LQK[kind]))
    expect(unm(new2, False), sig_ + "/unchecked-rejected", "unchecked unmarshal failed on valid bytes")
    buf3 = W.buf(mlen + pad)
    if iswk:
        d.vf_wk_marshal(WKK[kind], buf3, new2, 1 if comp else 0)
    else:
        d.vf_lq_marshal(LQK[kind], buf3, new2, 1 if comp else 0)
    expect(ctypes.string_at(buf3, mlen + pad)[mlen:] == b"\xCD" * pad, sig_ + "/remarshal-overrun", "marshalling the (unchecked) unmarshalled object wrote beyond get_marshalled_length bytes")
    expect(ctypes.string_at(buf3, mlen) == wire, sig_ + "/unchecked-differs", "unchecked unmarshal gives a different object")


def static_checks(tier, vseed):
    """Exhaustive enumeration of the length functions."""
    from .. import lib as libmod
    lib = libmod.get("asm")
    d = lib.dll
    for n_ in ("vf_wk_length_formula", "vf_wk_length_from"):
        getattr(d, n_).restype = ctypes.c_long
    fails = []
    evals = 0
    nontriv = []
    for kind, k in (("params", 0), ("sk", 2)):
        for comp in (0, 1):
            e1, e2 = c09.enc_len(1, bool(comp)), c09.enc_len(2, bool(comp))
            for sigs in (0, 1):
                grid = {}
                for l in range(0, 65):
                    _, exp = element_layout(kind, bool(comp), bool(sigs), l)
                    got = d.vf_wk_length_formula(k, l, sigs, comp)
                    evals += 1
                    grid[exp] = l
                    if got != exp:
                        fails.append(("static-lengths", "asm", {"t": [kind, comp, sigs, l]}, "%s/marshalled_length" % kind, "l=%d sigs=%d compressed=%d: %d, expected %d" % (l, sigs, comp, got, exp)))
                top = max(grid)
                buf = ctypes.create_string_buffer(bytes([sigs]) + bytes(top + 8))
                for n in range(1, top + 4):
                    got = d.vf_wk_length_from(k, None, buf, ctypes.c_size_t(n), comp, 1)
                    exp = grid.get(n, -1)
                    evals += 1
                    if n in grid:
                        nontriv.append(("%s%d%d%d" % (kind, comp, sigs, n)).encode())
                    if got != exp:
                        fails.append(("static-lengths", "asm", {"t": [kind, comp, sigs, n]}, "%s/unmarshalled_length" % kind, "len=%d sigs=%d compressed=%d: %d, expected %d" % (n, sigs, comp, got, exp)))
    return {"evaluations": evals, "classes": {"static-lengths": evals}, "samples": {"static-lengths": ["params/sk x compressed x signatures x l=0..64 and every length 1..max+3"]},
            "failures": fails[:5], "nontrivial": nontriv, "extra": {"length_grid_exhaustive": True}}


def prebuild(tier):
    PR.gt_pow_gen(3)
    C.gen_mul(1, 3)
    C.gen_mul(2, 3)


SUBCHECKS = [
    Sub("roundtrip", cases(), check, 24000, 300000, ("asm",), ("asm", "p32")),
]
