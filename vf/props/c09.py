"""C09 - Point encodings round-trip; validating decode accepts only canonical encodings."""
import ctypes

from hypothesis import strategies as st

from .. import conv, gens
from ..ref import curve as C
from ..ref import fields as F
from ..runner import Sub, expect
from . import c05

RULE = ("Generated: (group, form, checked, bytes). Valid encodings come from reference points t*G (and the identity) encoded by the "
        "library; invalid ones are built by one drawn mutation of a valid encoding: each flag bit flipped, junk in the masked top bits "
        "of a non-first coefficient, a coefficient c replaced by c+q (when it fits in 381 bits) or by a value in [q,2^381), the other "
        "form's flag, infinity flag with non-zero padding / with the greater flag, uncompressed y -> -y (still valid) or y+1 (off curve), "
        "a curve point outside the subgroup (reference lift of a drawn x), a compressed x with no y, and unstructured random bytes; the "
        "output object is pre-filled with a drawn byte (stale state). Oracle: reference decoder for the statement - accept iff the "
        "bytes are exactly the library's own encoding of an on-curve, in-subgroup point (parsed, curve-checked and subgroup-checked by "
        "the reference; the greater flag is taken from the library's encoder, not re-specified); on accept the decoded point equals the "
        "reference point and re-encodes to the input; both forms describe the same point; unchecked decode of a valid encoding equals "
        "checked decode. Non-trivial = any invalid-class case or the identity.")
ASSUMPTIONS = ["reference curve arithmetic and square roots (self-tested)", "the 'greater' flag convention is whatever the library's own encoder produces (pinned, see DESIGN.md section 3)",
               "decoders are handed buffers of exactly the documented size"]

Q, R = F.Q, F.R_ORDER
API = "embedded_pairing_bls12_381_"
M381 = (1 << 381) - 1
FLAG_C, FLAG_I, FLAG_G = 0x80, 0x40, 0x20


def enc_len(g, compressed):
    return 48 * g * (1 if compressed else 2)


def lib_encode(lib, g, P, compressed, junk=None):
    K = c05.KK(g)
    img = c05.aff_b(lib, g, P, junk or (K.zero, K.one))
    f = getattr(lib.dll, API + "g%d_marshal" % g)
    f.restype = None
    n = enc_len(g, compressed)
    lib.A.write(img)
    lib.O.fill(0xCD, n + 16)
    f(lib.O.ptr, lib.A.ptr, ctypes.c_bool(compressed))
    out = lib.O.read(n + 16)
    return out[:n], out[n:]


def lib_decode(lib, g, data, compressed, checked, prefill=0xCD):
    f = getattr(lib.dll, API + "g%d_unmarshal" % g)
    f.restype = ctypes.c_bool
    sz = lib.sizeof("G%dAffine" % g)
    lib.A.write(data)
    lib.O.fill(prefill, sz)
    ok = bool(f(lib.O.ptr, lib.A.ptr, ctypes.c_bool(compressed), ctypes.c_bool(checked)))
    return ok, lib.O.read(sz)


def coeffs(g, data):
    """Wire coefficients as integers, in wire order (48-byte big-endian words)."""
    return [int.from_bytes(data[i:i + 48], "big") for i in range(0, len(data), 48)]


def from_coeffs(cs):
    return b"".join(c.to_bytes(48, "big") for c in cs)


def parse_point(g, cs):
    """Wire coefficients (flags already stripped) -> reference coordinates; G2 words are (c1, c0)."""
    if g == 1:
        return tuple(cs)
    return tuple((cs[2 * i + 1], cs[2 * i]) for i in range(len(cs) // 2))


def ref_decode(lib, g, data, compressed):
    """Reference decision for validating decode: (accept, point or None)."""
    K = c05.KK(g)
    n = enc_len(g, compressed)
    assert len(data) == n
    flags = data[0] & 0xE0
    if bool(flags & FLAG_C) != compressed:
        return False, None
    if flags & FLAG_I:
        ok = data == bytes([FLAG_I | (FLAG_C if compressed else 0)]) + bytes(n - 1)
        return ok, None
    cs = coeffs(g, data)
    cs[0] &= M381
    if any(c >= Q for c in cs):
        return False, None                  # covers junk in the top bits of later words (they would be >= 2^381 > q)
    if compressed:
        x = parse_point(g, cs)[0]
        cands = [C.lift_x(x, K, 0), C.lift_x(x, K, 1)]
        if cands[0] is None:
            return False, None
    else:
        if flags & FLAG_G:
            return False, None
        x, y = parse_point(g, cs)
        P = (x, y)
        if not C.on_curve(P, K):
            return False, None
        cands = [P]
    if C.mul(cands[0], R, K) is not None:
        return False, None
    for P in cands:
        if lib_encode(lib, g, P, compressed)[0] == data:
            return True, P
    return False, None


MUTATIONS = ("none", "none", "flip_c", "flip_i", "flip_g", "junk_top", "plus_q", "ge_q", "inf_pad", "inf_pad0", "inf_greater", "neg_y", "y_plus_1",
             "outside_subgroup", "no_y", "random", "other_form_identity", "identity", "invalid_curve")


@st.composite
def cases(draw):
    g = draw(st.sampled_from((1, 2)))
    compressed = draw(st.booleans())
    mut = draw(st.sampled_from(MUTATIONS))
    t = draw(st.one_of(st.sampled_from((1, 2, R - 1)), st.integers(1, R - 1)))
    c = {"g": g, "comp": compressed, "mut": mut, "t": t, "prefill": draw(st.sampled_from((0x00, 0xCD, 0x01, 0xFF))),
         "idx": draw(st.integers(0, 3)), "bits": draw(st.integers(1, 7)), "v": draw(gens.ints(384, Q))[1], "pos": draw(st.integers(1, 191))}
    if mut in ("outside_subgroup", "no_y"):
        c["x"] = draw(c05.fe(g))
        c["which"] = draw(st.integers(0, 1))
    if mut == "random":
        c["raw"] = draw(st.binary(min_size=enc_len(g, compressed), max_size=enc_len(g, compressed)))
    return c


def build(lib, c):
    """Bytes to decode + label for the case."""
    g, comp, mut = c["g"], c["comp"], c["mut"]
    K = c05.KK(g)
    n = enc_len(g, comp)
    P = C.gen_mul(g, c["t"])
    if mut in ("identity", "inf_pad", "inf_pad0", "inf_greater", "other_form_identity"):
        P = None
    data, guard = lib_encode(lib, g, P, comp)
    expect(guard == b"\xCD" * 16, "g%d_marshal/overrun" % g, "marshal wrote past the documented encoding size")
    if P is None:
        # an identity whose coordinate fields hold leftovers (as after P + (-P) converted to affine form, or a re-used object) has the
        # same, canonical encoding: flags and zeros
        jx = c["v"] % Q if g == 1 else (c["v"] % Q, (c["v"] >> 7) % Q)
        jy = (c["v"] * 3 + 1) % Q if g == 1 else ((c["v"] * 3 + 1) % Q, 5)
        data_j, _ = lib_encode(lib, g, None, comp, junk=(jx, jy))
        expect(data_j == data, "g%d_marshal/identity-with-leftover-coordinates" % g, lambda: "identity with junk coordinates encodes as %s, canonical identity as %s" % (data_j.hex(), data.hex()))
    cs = coeffs(g, data)
    ncoef = len(cs)
    i = c["idx"] % ncoef
    if mut == "flip_c":
        data = bytes([data[0] ^ FLAG_C]) + data[1:]
    elif mut == "flip_i":
        data = bytes([data[0] ^ FLAG_I]) + data[1:]
    elif mut == "flip_g":
        data = bytes([data[0] ^ FLAG_G]) + data[1:]
    elif mut == "junk_top":
        if ncoef == 1:
            return data, "none"
        i = 1 + c["idx"] % (ncoef - 1)
        cs[i] |= c["bits"] << 381
        data = from_coeffs(cs)
    elif mut == "plus_q":
        flags = cs[0] >> 381
        body = [x & M381 if k == 0 else x for k, x in enumerate(cs)]
        # pick a coefficient that still fits in 381 bits after adding q
        order = list(range(i, ncoef)) + list(range(0, i))
        for k in order:
            if body[k] + Q <= M381:
                body[k] += Q
                break
        else:
            return data, "none"
        body[0] |= flags << 381
        data = from_coeffs(body)
    elif mut == "ge_q":
        flags = cs[0] >> 381
        body = [x & M381 if k == 0 else x for k, x in enumerate(cs)]
        body[i] = Q + c["v"] % (M381 + 1 - Q)
        body[0] |= flags << 381
        data = from_coeffs(body)
    elif mut == "inf_pad":
        pos = c["pos"] % (n - 1) + 1
        data = data[:pos] + bytes([c["bits"]]) + data[pos + 1:]
    elif mut == "inf_pad0":
        # identity encoding with stray low bits in the flag byte itself
        data = bytes([data[0] | (c["bits"] | (c["pos"] & 0x18)) & 0x1F or 1]) + data[1:]
    elif mut == "invalid_curve":
        # a point of order r on the isomorphic curve y^2 = x^3 + b*s^6: (s^2 x, s^3 y). The group formulas do not involve b,
        # so [r]P = O holds for it; only the curve equation tells it apart.
        if comp:
            return data, "none"
        sv = c["v"] % Q
        s1 = K.small(sv if sv > 1 else 2)
        s2 = K.mul(s1, s1)
        s3 = K.mul(s2, s1)
        Pn = (K.mul(s2, P[0]), K.mul(s3, P[1]))
        if C.on_curve(Pn, K):
            return data, "none"
        data = lib_encode(lib, g, Pn, comp)[0]
    elif mut == "inf_greater":
        data = bytes([data[0] | FLAG_G]) + data[1:]
    elif mut == "other_form_identity":
        data = bytes([data[0] ^ FLAG_C]) + data[1:]
    elif mut == "neg_y":
        if comp:
            data = bytes([data[0] ^ FLAG_G]) + data[1:]        # the other root: still a valid encoding
        else:
            data = lib_encode(lib, g, C.neg(P, K), comp)[0]
    elif mut == "y_plus_1":
        if comp:
            return data, "none"
        x, y = P
        y1 = K.add(y, K.one)
        data = lib_encode(lib, g, (x, y1), comp)[0]
    elif mut == "outside_subgroup":
        x = c["x"] if g == 1 else tuple(c["x"])
        for _ in range(64):
            Pn = C.lift_x(x, K, c["which"])
            if Pn is not None:
                break
            x = K.add(x, K.one)
        data = lib_encode(lib, g, Pn, comp)[0]
    elif mut == "no_y":
        if not comp:
            return data, "none"
        x = c["x"] if g == 1 else tuple(c["x"])
        for _ in range(64):
            if C.lift_x(x, K, 0) is None:
                break
            x = K.add(x, K.one)
        ws = [x] if g == 1 else [x[1], x[0]]
        ws[0] |= (FLAG_C | (FLAG_G if c["which"] else 0)) << 376
        data = from_coeffs(ws)
    elif mut == "random":
        data = c["raw"]
    return data, mut


def check(ctx, lib, c):
    g, comp = c["g"], c["comp"]
    data, label = build(lib, c)
    gs = "g%d" % g
    exp_ok, P = ref_decode(lib, g, data, comp)
    if c["prefill"] in (0x01, 0xFF):
        # the caller first looked at the bytes without validation (any outcome is allowed there); the validating verdict that follows
        # is a function of the bytes alone
        lib_decode(lib, g, data, comp, False, c["prefill"])
        ctx.event("unchecked-first")
    ok, img = lib_decode(lib, g, data, comp, True, c["prefill"])
    cls = "%s-%s-%s" % (gs, "comp" if comp else "uncomp", label)
    ctx.count(c, label != "none", cls + (":accept" if exp_ok else ":reject"))
    sig = "%s_unmarshal/%s/%s" % (gs, "compressed" if comp else "uncompressed", label)
    # the same bytes through the other decoder of the same length (96 bytes: G1 uncompressed and G2 compressed), right after this
    # one: each decoder's verdict is a function of the bytes and its own form alone, whatever was decoded before
    if len(data) == 96:
        g2_, comp2 = (2, True) if g == 1 else (1, False)
        exp2, P2 = ref_decode(lib, g2_, data, comp2)
        ok4, img4 = lib_decode(lib, g2_, data, comp2, True, c["prefill"])
        ctx.event("cross-decoder-96")
        expect(ok4 == exp2, "g%d_unmarshal/%s/after-other-decoder" % (g2_, "compressed" if comp2 else "uncompressed"),
               lambda: "bytes %s: just %s as g%d, then decoded as g%d %s: verdict %r, expected %r" % (data.hex(), "accepted" if ok else "rejected", g, g2_, "compressed" if comp2 else "uncompressed", ok4, exp2))
        if exp2 and ok4:
            expect(c05.b_aff(lib, g2_, img4) == P2, "g%d_unmarshal/%s/after-other-decoder/wrong-point" % (g2_, "compressed" if comp2 else "uncompressed"), lambda: data.hex())
    # the leading 48 / 96 bytes through the decoders of that length, right after this one (a G2 x coordinate starts with a value that
    # reads as a G1 x coordinate): again each verdict is a function of those bytes and that decoder's form alone
    for g3, comp3 in ((1, True), (1, False), (2, True)):
        L = enc_len(g3, comp3)
        if L < len(data) and c["prefill"] in (0xCD, 0xFF):
            pre = data[:L]
            exp3, P3 = ref_decode(lib, g3, pre, comp3)
            ok7, img7 = lib_decode(lib, g3, pre, comp3, True, c["prefill"])
            ctx.event("prefix-decoder")
            s3 = "g%d_unmarshal/%s/after-longer-input" % (g3, "compressed" if comp3 else "uncompressed")
            expect(ok7 == exp3, s3, lambda: "bytes %s %s as g%d, then their first %d bytes: verdict %r, expected %r" % (data.hex(), "accepted" if ok else "rejected", g, L, ok7, exp3))
            if exp3 and ok7:
                expect(c05.b_aff(lib, g3, img7) == P3, s3 + "/wrong-point", lambda: pre.hex())
    if exp_ok:
        expect(ok, sig + "/rejected-valid", lambda: "bytes=%s" % data.hex())
        got = c05.b_aff(lib, g, img)
        expect(got == P, sig + "/wrong-point", lambda: "bytes=%s got=%r expected=%r" % (data.hex(), got, P))
        expect(img[lib.inf_off[g]] in (0, 1), sig + "/flag-byte", "infinity flag is neither 0 nor 1")
        re, _ = lib_encode(lib, g, got, comp)
        expect(re == data, sig + "/reencode", lambda: "bytes=%s re-encoded=%s" % (data.hex(), re.hex()))
        # the other form describes the same point
        other, _ = lib_encode(lib, g, got, not comp)
        ok2, img2 = lib_decode(lib, g, other, not comp, True, c["prefill"])
        expect(ok2 and c05.b_aff(lib, g, img2) == P, sig + "/other-form", lambda: "point %r: %s" % (P, other.hex()))
        # non-validating decode of a valid encoding gives the same point
        ok3, img3 = lib_decode(lib, g, data, comp, False, c["prefill"])
        expect(ok3 and c05.b_aff(lib, g, img3) == P, sig + "/unchecked-differs", lambda: "bytes=%s" % data.hex())
        # related calls directly afterwards: the negated point (same x, so the same bytes up to the sign bit / the y half) is encoded,
        # judged by the reference decoder, decoded by the library, and then the first bytes once more
        if P is not None:
            nP = C.neg(P, c05.KK(g))
            e2, _ = lib_encode(lib, g, nP, comp)
            okr, Pr = ref_decode(lib, g, e2, comp)
            expect(okr and Pr == nP, sig + "/after-related-call/encode-negated", lambda: "encode(P) then encode(-P): %s does not describe -P" % e2.hex())
            ok5, img5 = lib_decode(lib, g, e2, comp, True, c["prefill"])
            expect(ok5 and c05.b_aff(lib, g, img5) == nP, sig + "/after-related-call/decode-negated", lambda: "bytes=%s then %s" % (data.hex(), e2.hex()))
            ok6, img6 = lib_decode(lib, g, data, comp, True, c["prefill"])
            expect(ok6 and c05.b_aff(lib, g, img6) == P, sig + "/after-related-call/repeat", lambda: "bytes=%s" % data.hex())
    else:
        why = "non-canonical" if label in ("junk_top", "plus_q", "ge_q") else label
        expect(not ok, "%s_unmarshal/%s/accepted-invalid/%s" % (gs, "compressed" if comp else "uncompressed", why),
               lambda: "validating decode accepted %s (%s)" % (data.hex(), label))



def prebuild(tier):
    C.self_test()
    C.gen_mul(1, 3)
    C.gen_mul(2, 3)


SUBCHECKS = [
    Sub("decode", cases(), check, 24000, 300000, ("asm",), ("asm", "p32")),
]
