"""C04 - Extension-field tower Fq2/Fq6/Fq12 implements the defining polynomial arithmetic."""
from hypothesis import strategies as st

from .. import conv, gens
from ..ref import fields as F
from ..ref import pairing as PR
from ..runner import Sub, expect

RULE = ("Generated: (degree in {2,6,12}, operation, operands). Operand shapes are drawn: zero, one, minus-one, a single non-zero "
        "component, elements of each proper subfield, sparse line-function shapes, dense elements whose components come from the "
        "boundary mixture of gens.ints (as raw Montgomery words or as values); Frobenius powers from {0..13, 2^31, 2^32-1, multiples "
        "of 2/6/12 +-1}; cyclotomic/GT inputs are built by the reference. Oracle: schoolbook arithmetic modulo u^2+1, v^3-(u+1), "
        "w^2-v in Python integers (vf/ref/fields.py), x^(q^k) for Frobenius, definitions for norm/Legendre/sqrt/cyclotomic map; every "
        "output word must be canonical (< q). Non-trivial = an operand has a special shape, or the Frobenius power >= the extension "
        "degree, or the input is cyclotomic, or a byte input carries a non-reduced coefficient.")
ASSUMPTIONS = ["Python integer arithmetic", "the reference tower passes its library-free self-test (field axioms, flat/tower agreement, Frobenius = q-power)",
               "byte order of tower elements on the wire is pinned to the observed one (highest coefficient first, 48-byte big-endian words)"]

Q = F.Q
SIZE = {2: 96, 6: 288, 12: 576}
TO_B = {2: conv.fq2_b, 6: conv.fq6_b, 12: conv.fq12_b}
FROM_B = {2: conv.b_fq2, 6: conv.b_fq6, 12: conv.b_fq12}
PFX = {2: "fq2", 6: "fq6", 12: "fq12"}


@st.composite
def comp(draw):
    tag, v = draw(gens.canon(384, Q))
    if tag in ("special", "small") or draw(st.booleans()):
        return v                      # as a value
    return v * F.FQ_RINV % Q          # v was a raw Montgomery word


def _flatten(e):
    if isinstance(e, int):
        return [e]
    out = []
    for x in e:
        out += _flatten(x)
    return out


def _build(deg, cs):
    cs = list(cs)
    if deg == 2:
        return (cs[0], cs[1])
    if deg == 6:
        return tuple((cs[2 * i], cs[2 * i + 1]) for i in range(3))
    return (tuple((cs[2 * i], cs[2 * i + 1]) for i in range(3)), tuple((cs[6 + 2 * i], cs[6 + 2 * i + 1]) for i in range(3)))


@st.composite
def elem(draw, deg):
    shape = draw(st.sampled_from(("zero", "one", "minus_one", "single", "subfield", "dense", "dense", "dense", "halfzero")))
    n = deg
    if shape == "zero":
        cs = [0] * n
    elif shape == "one":
        cs = [1] + [0] * (n - 1)
    elif shape == "minus_one":
        cs = [Q - 1] + [0] * (n - 1)
    elif shape == "single":
        cs = [0] * n
        cs[draw(st.integers(0, n - 1))] = draw(comp())
    elif shape == "subfield":
        # Fq, or Fq2 (deg 6/12), or Fq6 (deg 12) embedded in the canonical way
        sub = draw(st.sampled_from([1] + [d for d in (2, 6) if d < deg]))
        cs = [draw(comp()) for _ in range(sub)] + [0] * (n - sub)
    elif shape == "halfzero":
        cs = [draw(comp()) if draw(st.booleans()) else 0 for _ in range(n)]
    else:
        cs = [draw(comp()) for _ in range(n)]
    return shape, _build(deg, cs)


FROB_POWERS = list(range(0, 14)) + [2**31, 2**32 - 1, 2**31 - 1, 23, 24, 25, 35, 36, 37, 2**32 - 12, 2**32 - 13, 1000000007]

BIN_OPS = ("add", "sub", "mul")
UN_OPS = ("dbl", "neg", "sqr", "inv", "frob")


@st.composite
def arith_cases(draw):
    deg = draw(st.sampled_from((2, 6, 12)))
    ops = list(BIN_OPS + UN_OPS)
    if deg in (2, 6):
        ops.append("mulnr")
    if deg == 12:
        ops += ["conj"]
    if deg == 2:
        ops += ["norm", "legendre", "sqrt", "compare"]
    ops += ["equal", "iszero", "exp"]
    op = draw(st.sampled_from(ops))
    sa, a = draw(elem(deg))
    c = {"deg": deg, "op": op, "a": a, "sa": sa}
    if op in BIN_OPS or op in ("equal", "compare"):
        sb, b = draw(elem(deg))
        if op in ("equal", "compare") and draw(st.booleans()):
            # equal or differing in exactly one component
            fl = _flatten(a)
            if draw(st.booleans()):
                i = draw(st.integers(0, deg - 1))
                fl[i] = (fl[i] + draw(st.sampled_from((1, Q - 1, 2)))) % Q
            b, sb = _build(deg, fl), "near"
        if op in BIN_OPS and draw(st.integers(0, 5)) == 0:
            # both operands one object (r.multiply(x, x)): a shortcut keyed on pointer identity sees nothing else
            b, sb, c["same_object"] = a, sa, True
        c["b"], c["sb"] = b, sb
    if op == "frob":
        c["k"] = draw(st.sampled_from(FROB_POWERS))
    if op == "exp":
        w = draw(st.sampled_from((64, 256, 384)))
        te, e = draw(gens.ints(w, F.R_ORDER if w == 256 else None))
        if deg >= 6 and draw(st.integers(0, 2)):
            e >>= max(0, e.bit_length() - 40)     # keep the reference exponentiation affordable
        c["w"], c["e"] = w, e
    return c


def _special(*shapes):
    return any(s not in ("dense",) for s in shapes)


def ref_mul(deg, a, b):
    return {2: F.fq2_mul, 6: F.fq6_mul, 12: F.fq12_mul}[deg](a, b)


def ref_add(deg, a, b):
    return {2: F.fq2_add, 6: F.fq6_add, 12: F.fq12_add}[deg](a, b)


def ref_sub(deg, a, b):
    return {2: F.fq2_sub, 6: F.fq6_sub, 12: F.fq12_sub}[deg](a, b)


def ref_neg(deg, a):
    return {2: F.fq2_neg, 6: F.fq6_neg, 12: F.fq12_neg}[deg](a)


def ref_inv(deg, a):
    return {2: F.fq2_inv, 6: F.fq6_inv, 12: F.fq12_inv}[deg](a)


def embed12(deg, a):
    return {2: F.fq2_to_fq12, 6: F.fq6_to_fq12, 12: lambda x: x}[deg](a)


def project(deg, a12):
    if deg == 12:
        return a12
    if deg == 6:
        assert a12[1] == F.FQ6_ZERO
        return a12[0]
    assert a12[1] == F.FQ6_ZERO and a12[0][1] == F.FQ2_ZERO and a12[0][2] == F.FQ2_ZERO
    return a12[0][0]


def ref_frob(deg, a, k):
    return project(deg, F.fq12_frobenius(embed12(deg, a), k))


def ref_pow(deg, a, e):
    if deg == 2:
        return F.fq2_pow(a, e)
    return project(deg, F.fq12_pow(embed12(deg, a), e))


def canonical(img):
    return all(w < Q for w in conv.raws(img))


def check_arith(ctx, lib, c):
    deg, op, a = c["deg"], c["op"], c["a"]
    pf = PFX[deg]
    A = TO_B[deg](a)
    sz = SIZE[deg]
    nontriv = _special(c["sa"], c.get("sb", "dense"))
    cls = "%s-%s" % (pf, op)
    sig = "%s_%s" % (pf, op)
    exp = None
    if op in BIN_OPS:
        b = c["b"]
        if c.get("same_object"):
            rv, out = lib.op("%s_%s" % (pf, op), A, None, alias="b=a")
            cls += ":same-object"
        else:
            rv, out = lib.op("%s_%s" % (pf, op), A, TO_B[deg](b))
        exp = {"add": ref_add, "sub": ref_sub, "mul": ref_mul}[op](deg, a, b)
    elif op == "dbl":
        rv, out = lib.op(pf + "_dbl", A)
        exp = ref_add(deg, a, a)
    elif op == "neg":
        rv, out = lib.op(pf + "_neg", A)
        exp = ref_neg(deg, a)
    elif op == "sqr":
        rv, out = lib.op(pf + "_sqr", A)
        exp = ref_mul(deg, a, a)
    elif op == "inv":
        if all(x == 0 for x in _flatten(a)):
            # the property only fixes inversion of non-zero elements; record what happens, require canonical output
            rv, out = lib.op(pf + "_inv", A)
            ctx.count(c, True, cls + ":zero")
            expect(canonical(out), sig + "/noncanonical", "inverse of zero produced a non-reduced word")
            return
        flat = _flatten(a)
        first_inplace = bool((flat[0] >> 5) & 1)      # (a function of the case)
        rv, out = lib.op(pf + "_inv", A, alias="a" if first_inplace else None)
        exp = ref_inv(deg, a)
        expect(FROM_B[deg](out) == exp, sig + ("/inplace" if first_inplace else "/value"), lambda: "case=%r" % (c,))
        # related calls directly afterwards: the inverse of a conjugate of a (same norm down the tower, different element), the inverse
        # of that result (must give the conjugate back), a again in place, and the inverse of that
        cj = ref_frob(deg, a, 1 if deg == 2 else 2 + 2 * ((flat[0] >> 7) & 1))
        o3 = lib.op(pf + "_inv", TO_B[deg](cj), alias="a" if (flat[0] >> 6) & 1 else None)[1]
        expect(FROM_B[deg](o3) == ref_inv(deg, cj), sig + "/after-related-call/conjugate", lambda: "case=%r: inverse(conjugate of a) after inverse(a) is wrong" % (c,))
        r4 = lib.op(pf + "_inv", o3)[1]
        expect(FROM_B[deg](r4) == cj, sig + "/after-related-call/inverse-of-result", lambda: "case=%r: inverse(inverse(conjugate of a)) != conjugate" % (c,))
        r5 = lib.op(pf + "_inv", A, alias="a")[1]
        expect(FROM_B[deg](r5) == exp, sig + "/after-related-call/repeat", lambda: "case=%r: inverse(a) again (in place) is different" % (c,))
        r2 = lib.op(pf + "_inv", r5)[1]
        expect(FROM_B[deg](r2) == a, sig + "/after-related-call/inverse-of-result", lambda: "case=%r: inverse(inverse(a)) != a" % (c,))
        cls += "-inplace" if first_inplace else ""
    elif op == "mulnr":
        rv, out = lib.op(pf + "_mulnr", A)
        exp = F.fq2_mul(a, F.XI) if deg == 2 else F.fq6_mul_by_v(a)
    elif op == "conj":
        rv, out = lib.op("fq12_conj", A)
        exp = F.fq12_pow(a, Q**6) if _flatten(a).count(0) >= 11 else F.fq12_frobenius(a, 6)
    elif op == "frob":
        k = c["k"]
        rv, out = lib.op(pf + "_frob", A, None, k)
        exp = ref_frob(deg, a, k)
        nontriv = nontriv or k >= deg
        cls += ":k>=deg" if k >= deg else ""
    elif op == "exp":
        w, e = c["w"], c["e"]
        rv, out = lib.call("vf_%s_exp" % pf, sz, w, "O", A, conv.bi(e, w))
        exp = ref_pow(deg, a, e)
        nontriv = nontriv or e in (0, 1, 2) or e.bit_length() <= w - 32
    elif op == "norm":
        lib.A.write(A)
        lib.O.fill(0xCD, 48)
        lib.fn("vf_fq2_norm", None)(lib.O.ptr, lib.A.ptr)
        out = lib.O.read(48)
        got = conv.b_fq(out)
        ctx.count(c, nontriv, cls)
        expect(canonical(out) and got == F.fq2_norm(a), sig + "/value", lambda: "a=%r got=%x" % (a, got))
        return
    elif op == "legendre":
        lib.A.write(A)
        rv = lib.fn("vf_fq2_legendre")(lib.A.ptr)
        e = F.fq2_legendre(a)
        ctx.count(c, nontriv or e == 0, cls + ":%d" % e)
        expect(rv == e, sig + "/value", lambda: "a=%r got=%d expected=%d" % (a, rv, e))
        return
    elif op == "sqrt":
        s = F.fq2_sqr(a)
        rv, out = lib.op("fq2_sqrt", TO_B[2](s))
        got = conv.b_fq2(out)
        ctx.count(c, nontriv, cls)
        expect(canonical(out) and F.fq2_sqr(got) == s and got in (a, F.fq2_neg(a)), sig + "/value", lambda: "s=%r got=%r" % (s, got))
        return
    elif op in ("equal", "compare"):
        b = c["b"]
        lib.A.write(A)
        lib.B.write(TO_B[deg](b))
        if op == "equal":
            rv = lib.fn("vf_tower_equal")(deg, lib.A.ptr, lib.B.ptr)
            ctx.count(c, True, cls + (":eq" if a == b else ""))
            expect(rv == (1 if a == b else 0), sig + "/value", lambda: "a=%r b=%r got=%d" % (a, b, rv))
        else:
            rv = lib.fn("vf_fq2_compare")(lib.A.ptr, lib.B.ptr)
            # pinned: order of the stored (Montgomery) representatives, c1 most significant
            ka = (conv.fq_raw(a[1]), conv.fq_raw(a[0]))
            kb = (conv.fq_raw(b[1]), conv.fq_raw(b[0]))
            e = (ka > kb) - (ka < kb)
            ctx.count(c, True, cls + ":%d" % e)
            expect(rv == e, sig + "/value", lambda: "a=%r b=%r got=%d expected=%d" % (a, b, rv, e))
        return
    elif op == "iszero":
        lib.A.write(A)
        rv = lib.fn("vf_tower_is_zero")(deg, lib.A.ptr)
        z = all(x == 0 for x in _flatten(a))
        ctx.count(c, nontriv, cls)
        expect(rv == (1 if z else 0), sig + "/value", lambda: "a=%r got=%d" % (a, rv))
        return
    got = FROM_B[deg](out)
    ctx.count(c, nontriv, cls)
    expect(canonical(out), sig + "/noncanonical", lambda: "a=%r -> non-reduced word in %s" % (a, out.hex()))
    expect(got == exp, sig + "/value", lambda: "case=%r got=%r expected=%r" % (c, got, exp))


# ---- sparse products ---------------------------------------------------------------------
@st.composite
def sparse_cases(draw):
    op = draw(st.sampled_from(("c1", "c01", "c014")))
    deg = 6 if op in ("c1", "c01") else 12
    sa, a = draw(elem(deg))
    cs = [list(draw(elem(2))) for _ in range(3)]
    # relations between two of the coefficients (a shortcut on c1 + c4, c0 == c1, ... is right for independent values)
    rel = draw(st.sampled_from(("indep", "indep", "indep", "equal", "negated", "conjugate", "zero-pair")))
    if rel != "indep":
        i, j = draw(st.sampled_from(((0, 1), (1, 2), (0, 2))))
        v = tuple(cs[i][1])
        w = {"equal": v, "negated": F.fq2_neg(v), "conjugate": (v[0], (Q - v[1]) % Q), "zero-pair": F.FQ2_ZERO}[rel]
        cs[j] = ["rel-" + rel, w]
        if rel == "zero-pair":
            cs[i] = ["rel-zero-pair", F.FQ2_ZERO]
    return {"op": op, "a": a, "sa": sa, "c": [x[1] for x in cs], "sc": [x[0] for x in cs]}


def check_sparse(ctx, lib, c):
    op, a, cs = c["op"], c["a"], [tuple(x) for x in c["c"]]
    nontriv = _special(c["sa"], *c["sc"])
    Z = F.FQ2_ZERO
    if op == "c1":
        rv, out = lib.op("fq6_mul_c1", conv.fq6_b(a), conv.fq2_b(cs[0]))
        exp = F.fq6_mul(a, (Z, cs[0], Z))
        got = conv.b_fq6(out)
    elif op == "c01":
        rv, out = lib.call("vf_fq6_mul_c01", 288, "O", conv.fq6_b(a), conv.fq2_b(cs[0]), conv.fq2_b(cs[1]), restype=None)
        exp = F.fq6_mul(a, (cs[0], cs[1], Z))
        got = conv.b_fq6(out)
    else:
        rv, out = lib.call("vf_fq12_mul_c014", 576, "O", conv.fq12_b(a), conv.fq2_b(cs[0]), conv.fq2_b(cs[1]), conv.fq2_b(cs[2]), restype=None)
        exp = F.fq12_mul(a, ((cs[0], cs[1], Z), (Z, cs[2], Z)))
        got = conv.b_fq12(out)
    ctx.count(c, nontriv, "sparse-" + op)
    expect(canonical(out) and got == exp, "mul_by_%s/value" % op, lambda: "case=%r got=%r expected=%r" % (c, got, exp))


# ---- cyclotomic subgroup -----------------------------------------------------------------
def to_cyc_ref(t):
    """x^((q^6-1)(q^2+1)) via reference Frobenius/inverse (validated against pow in the self-test)."""
    p = F.tower_to_flat(t)
    a = F.p_mul(F.p_frobenius(p, 6), F.p_inv(p))
    return F.p_mul(F.p_frobenius(a, 2), a)


@st.composite
def cyc_cases(draw):
    op = draw(st.sampled_from(("to_cyc", "sqr_cyc", "sqr_cyc_gt", "exp_nodiv", "to_cyc_pow", "exp_gt", "exp_gt")))
    c = {"op": op}
    if op == "exp_gt":
        # the GT fast paths (four-way Frobenius exponentiation) incl. exponents whose base-|x| digits are all zero
        c["t"] = draw(gens.scalars(256))[1]
        c["k"] = draw(st.one_of(st.sampled_from((0, 1, F.R_ORDER, F.R_ORDER - 1, F.R_ORDER + 1, -F.X, F.X * F.X)), gens.scalars(256).map(lambda x: x[1])))
        c["how"] = draw(st.sampled_from(("div", "nodiv", "auto")))
        c["prefill"] = draw(st.sampled_from(("garbage", "base")))
        return c
    if op in ("to_cyc", "to_cyc_pow", "sqr_cyc", "exp_nodiv"):
        sa, a = draw(elem(12))
        if all(x == 0 for x in _flatten(a)):
            a = F.FQ12_ONE
        c["a"], c["sa"] = a, sa
    if op == "sqr_cyc_gt":
        c["t"] = draw(gens.scalars(256))[1]
    if op == "exp_nodiv":
        w = draw(st.sampled_from((64, 256)))
        e = draw(gens.ints(w))[1]
        if draw(st.booleans()):
            e >>= max(0, e.bit_length() - 48)
        c["w"], c["e"] = w, e
    return c


def check_cyc(ctx, lib, c):
    op = c["op"]
    if op in ("to_cyc", "to_cyc_pow"):
        a = c["a"]
        rv, out = lib.op("fq12_to_cyc", conv.fq12_b(a))
        got = F.tower_to_flat(conv.b_fq12(out))
        if op == "to_cyc_pow":
            exp = F.p_pow(F.tower_to_flat(a), (Q**6 - 1) * (Q**2 + 1))
            ctx.event("to_cyc/by-definition-pow")
        else:
            exp = to_cyc_ref(a)
        ctx.count(c, True, "cyc-to_cyc")
        expect(canonical(out) and got == exp, "fq12_map_to_cyclotomic/value", lambda: "a=%r" % (a,))
        return
    if op == "exp_gt":
        g = PR.gt_pow_gen(c["t"])
        G = conv.fq12_b(F.flat_to_tower(g))
        name = {"div": "fq12_exp_gt_div", "nodiv": "fq12_exp_gt_nodiv", "auto": "fq12_exp_gt"}[c["how"]]
        rv, out = lib.op(name, G, conv.bi(c["k"], 256), alias=("a" if c["prefill"] == "base" else None))
        got = F.tower_to_flat(conv.b_fq12(out))
        ctx.count(c, True, "cyc-exp_gt-%s" % c["how"] + (":zero-digits" if c["k"] % F.R_ORDER == 0 else ""))
        expect(canonical(out) and got == PR.gt_pow_gen(c["t"] * c["k"]), "fq12_exponentiate_gt/value", lambda: "case=%r" % (c,))
        return
    if op == "sqr_cyc_gt":
        g = PR.gt_pow_gen(c["t"])
        src = "gt"
    else:
        g = to_cyc_ref(c["a"])
        src = "cyc"
    G = conv.fq12_b(F.flat_to_tower(g))
    if op in ("sqr_cyc", "sqr_cyc_gt"):
        rv, out = lib.op("fq12_sqr_cyc", G)
        exp = F.p_mul(g, g)
        sig = "fq12_square_cyclotomic/value"
    else:
        w, e = c["w"], c["e"]
        rv, out = lib.call("vf_fq12_exp_cyc_nodiv", 576, w, "O", G, conv.bi(e, w), restype=None)
        exp = F.p_pow(g, e)
        sig = "fq12_exponentiate_cyclotomic_nodiv/value"
    got = F.tower_to_flat(conv.b_fq12(out))
    ctx.count(c, True, "cyc-%s-%s" % (op, src))
    expect(canonical(out) and got == exp, sig, lambda: "case=%r" % (c,))


# ---- byte I/O -----------------------------------------------------------------------------
def ref_bytes(deg, a):
    """Pinned layout: highest coefficient first at every level, 48-byte big-endian canonical words."""
    if deg == 1:
        return a.to_bytes(48, "big")
    if deg == 2:
        return ref_bytes(1, a[1]) + ref_bytes(1, a[0])
    if deg == 6:
        return ref_bytes(2, a[2]) + ref_bytes(2, a[1]) + ref_bytes(2, a[0])
    return ref_bytes(6, a[1]) + ref_bytes(6, a[0])


def ref_parse(deg, b):
    if deg == 1:
        return (int.from_bytes(b, "big") & ((1 << 381) - 1)) % Q
    if deg == 2:
        return (ref_parse(1, b[48:96]), ref_parse(1, b[0:48]))
    if deg == 6:
        return (ref_parse(2, b[192:288]), ref_parse(2, b[96:192]), ref_parse(2, b[0:96]))
    return (ref_parse(6, b[288:576]), ref_parse(6, b[0:288]))


@st.composite
def io_cases(draw):
    deg = draw(st.sampled_from((2, 6, 12)))
    kind = draw(st.sampled_from(("roundtrip", "read")))
    if kind == "roundtrip":
        sa, a = draw(elem(deg))
        return {"deg": deg, "kind": kind, "a": a, "sa": sa}
    words = []
    nonred = False
    for _ in range(deg):
        t, v = draw(gens.ints(384, Q))
        how = draw(st.integers(0, 3))
        if how == 0:
            v = Q + v % ((1 << 381) - Q)
        if how == 1:
            v = (v & ((1 << 381) - 1)) | (draw(st.integers(1, 7)) << 381)
        if (v & ((1 << 381) - 1)) >= Q or v >> 381:
            nonred = True
        words.append(v)
    return {"deg": deg, "kind": kind, "words": words, "nonred": nonred}


def check_io(ctx, lib, c):
    deg = c["deg"]
    sz = SIZE[deg]
    be = lib.fn("vf_tower_be", None)
    if c["kind"] == "roundtrip":
        a = c["a"]
        lib.A.write(TO_B[deg](a))
        lib.B.fill(0xCD, sz)
        be(deg, 0, lib.B.ptr, lib.A.ptr)
        wire = lib.B.read(sz)
        lib.O.fill(0xCD, sz)
        be(deg, 1, lib.O.ptr, lib.B.ptr)
        back = lib.O.read(sz)
        ctx.count(c, _special(c["sa"]), "io-roundtrip-%d" % deg)
        expect(wire == ref_bytes(deg, a), "%s_write_big_endian/layout" % PFX[deg], lambda: "a=%r wire=%s" % (a, wire.hex()))
        expect(FROM_B[deg](back) == a and canonical(back), "%s_big_endian/roundtrip" % PFX[deg], lambda: "a=%r" % (a,))
    else:
        buf = b"".join(w.to_bytes(48, "big") for w in c["words"])
        lib.A.write(buf)
        lib.O.fill(0xCD, sz)
        be(deg, 1, lib.O.ptr, lib.A.ptr)
        out = lib.O.read(sz)
        exp = ref_parse(deg, buf)
        ctx.count(c, c["nonred"], "io-read-%d" % deg + (":nonreduced" if c["nonred"] else ""))
        expect(canonical(out) and FROM_B[deg](out) == exp, "%s_read_big_endian/value" % PFX[deg], lambda: "bytes=%s" % buf.hex())


def prebuild(tier):
    a = ((( 3, 5), (7, 11), (13, 17)), ((19, 23), (29, 31), (37, 41)))
    assert to_cyc_ref(a) == F.p_pow(F.tower_to_flat(a), (Q**6 - 1) * (Q**2 + 1))
    PR.gt_pow_gen(5)


CFG_T = ("asm", "p32")
SUBCHECKS = [
    Sub("arith", arith_cases(), check_arith, 20000, 400000, ("asm",), CFG_T),
    Sub("sparse", sparse_cases(), check_sparse, 5000, 80000, ("asm",), CFG_T),
    Sub("cyclotomic", cyc_cases(), check_cyc, 2500, 40000, ("asm",), CFG_T),
    Sub("io", io_cases(), check_io, 5000, 80000, ("asm",), CFG_T),
]
