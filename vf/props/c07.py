"""C07 - Target-group exponentiation and group operations are exact."""
import ctypes
import math

from hypothesis import strategies as st

from .. import conv, gens
from ..ref import fields as F
from ..ref import pairing as PR
from ..runner import Sub, expect

RULE = ("Generated: a = GTref^t for drawn t (reference fixed-base power of the reference generator pairing), exponents k from "
        "gens.scalars (boundaries relative to r, 2^256-d, runs, |x|^i digit boundaries), random byte streams both raw and structured "
        "(little-endian 64-bit digits chosen >= |x|, equal to the digits of r-1, r, r+1, |x|^4-1, all-ones words) so that the "
        "rejection branches are taken. Oracle: reference powers in the flat Fq12 (a^k, a^2, a^-1, a*b), y < r, result == a^y, digits "
        "recombine to y and are < |x|; plus a chi-square test of the top-4-bit histogram of 4096 sampled exponents against the exact "
        "bin probabilities derived from r. Non-trivial = k >= r or k at a digit boundary or a stream that forced a rejection or an "
        "in-place call (result is the base).")
ASSUMPTIONS = ["reference GT arithmetic (flat Fq12, self-tested)", "GT inputs are members of the order-r subgroup (the documented domain of the gt_* functions)",
               "the chi-square threshold corresponds to a false-alarm probability below 1e-9 for a uniform sampler"]

R = F.R_ORDER
ABS_X = -F.X
API = "embedded_pairing_bls12_381_"


def gt_b(t):
    return conv.fq12_b(F.flat_to_tower(PR.gt_pow_gen(t)))


def digits_of(v):
    ds = []
    for _ in range(3):
        ds.append(v % ABS_X)
        v //= ABS_X
    ds.append(v)
    return ds


@st.composite
def streams(draw):
    """Byte stream for the random source, with its construction tag."""
    kind = draw(st.sampled_from(("raw", "raw", "target", "bigdigits", "ones", "empty")))
    if kind == "raw":
        return kind, draw(st.binary(min_size=0, max_size=96))
    if kind == "empty":
        return kind, b""
    if kind == "ones":
        return kind, b"\xff" * draw(st.integers(1, 80))
    if kind == "bigdigits":
        # some digits >= |x| (rejected one by one)
        ws = [draw(st.integers(ABS_X, (1 << 64) - 1)) if draw(st.booleans()) else draw(st.integers(0, ABS_X - 1)) for _ in range(draw(st.integers(1, 10)))]
        return kind, b"".join(w.to_bytes(8, "little") for w in ws)
    # digits of chosen values: first candidates >= r (rejected as a whole), then something valid
    out = b""
    for _ in range(draw(st.integers(1, 3))):
        v = draw(st.sampled_from((R, R + 1, R - 1, ABS_X**4 - 1, R + (ABS_X**4 - R) // 2, 2 * R - R // 3)))
        v += draw(st.integers(-2, 2)) if draw(st.booleans()) else 0
        v = max(0, min(v, ABS_X**4 - 1))
        out += b"".join(d.to_bytes(8, "little") for d in digits_of(v))
    return kind, out


OPS = ("capi_multiply", "capi_multiply", "exp_gt_div", "exp_gt_nodiv", "exp_gt_px", "double", "negate", "add", "equal", "multiply_random", "px_random", "random_gt")


@st.composite
def cases(draw):
    op = draw(st.sampled_from(OPS))
    c = {"op": op, "t": draw(gens.scalars(256))[1]}
    if op in ("capi_multiply", "exp_gt_div", "exp_gt_nodiv"):
        c["ts"], c["k"] = draw(gens.scalars(256))
        c["inplace"] = draw(st.booleans()) if op != "exp_gt_nodiv" or True else False
    elif op == "exp_gt_px":
        c["c"] = [draw(st.one_of(st.sampled_from((0, 1, ABS_X - 1, ABS_X - 2, 1 << 63, (1 << 63) - 1)), st.integers(0, ABS_X - 1))) for _ in range(4)]
        c["inplace"] = draw(st.booleans())
    elif op in ("add", "equal"):
        c["u"] = draw(gens.scalars(256))[1]
        if op == "equal" and draw(st.booleans()):
            c["u"] = c["t"] + draw(st.sampled_from((0, R, 1)))
    elif op in ("multiply_random", "px_random", "random_gt"):
        c["sk"], c["stream"] = draw(streams())
        c["seed"] = draw(st.integers(0, 2**32))
        c["inplace"] = draw(st.booleans())
    return c


def check(ctx, lib, c):
    op, t = c["op"], c["t"]
    a = PR.gt_pow_gen(t)
    A = conv.fq12_b(F.flat_to_tower(a))
    al = "a" if c.get("inplace") else None
    if op in ("capi_multiply", "exp_gt_div", "exp_gt_nodiv"):
        k = c["k"]
        K = conv.bi(k, 256)
        if op == "capi_multiply":
            f = getattr(lib.dll, API + "gt_multiply")
            f.restype = None
            lib.A.write(A)
            lib.B.write(K)
            dst = lib.A if al else lib.O
            lib.O.fill(0xCD, 576)
            f(dst.ptr, lib.A.ptr, lib.B.ptr)
            out = dst.read(576)
        else:
            rv, out = lib.op("fq12_" + op, A, K, alias=al)
        got = F.tower_to_flat(conv.b_fq12(out))
        exp = PR.gt_pow_gen(t * k)
        nontriv = k >= R or not c["ts"].endswith("uniform") or bool(al)
        ctx.count(c, nontriv, "%s:%s" % (op, "k>=r" if k >= R else c["ts"]))
        expect(got == exp, "%s/%s" % (op, "inplace" if al else "value"), lambda: "t=%x k=%x" % (t, k))
        # related calls through the same entry point: the inverse of the base (its conjugate: same c0, negated c1) with another
        # exponent, and the result of the first call as the next base
        k2 = (k * 0x9E3779B97F4A7C15 + t + 1) % (1 << 256)
        K2 = conv.bi(k2, 256)
        for base_t, img in (((-t) % R, conv.fq12_b(F.flat_to_tower(PR.gt_pow_gen((-t) % R)))), (t * k % R, out)):
            if op == "capi_multiply":
                lib.A.write(img)
                lib.B.write(K2)
                lib.O.fill(0xCD, 576)
                f(lib.O.ptr, lib.A.ptr, lib.B.ptr)
                o2 = lib.O.read(576)
            else:
                o2 = lib.op("fq12_" + op, img, K2)[1]
            expect(F.tower_to_flat(conv.b_fq12(o2)) == PR.gt_pow_gen(base_t * k2), "%s/after-related-call" % op, lambda: "first a^k with t=%x k=%x, then base GT^%x with k2=%x: wrong value" % (t, k, base_t, k2))
        return
    if op == "exp_gt_px":
        cs = c["c"]
        rv, out = lib.op("fq12_exp_gt_px", A, conv.px_pack(lib, cs), alias=al)
        k = sum(d * ABS_X**i for i, d in enumerate(cs))
        got = F.tower_to_flat(conv.b_fq12(out))
        ctx.count(c, True, "exp_gt_px")
        expect(got == PR.gt_pow_gen(t * k), "exp_gt_px/%s" % ("inplace" if al else "value"), lambda: "t=%x digits=%r" % (t, cs))
        return
    if op in ("double", "negate"):
        name = API + ("gt_double" if op == "double" else "gt_negate")
        f = getattr(lib.dll, name)
        f.restype = None
        lib.A.write(A)
        lib.O.fill(0xCD, 576)
        f(lib.O.ptr, lib.A.ptr)
        got = F.tower_to_flat(conv.b_fq12(lib.O.read(576)))
        exp = PR.gt_pow_gen(2 * t if op == "double" else -t)
        ctx.count(c, t % R in (0, 1, R - 1), "gt_" + op)
        expect(got == exp, "gt_%s/value" % op, lambda: "t=%x" % t)
        return
    if op in ("add", "equal"):
        u = c["u"]
        Bv = gt_b(u)
        lib.A.write(A)
        lib.B.write(Bv)
        if op == "add":
            f = getattr(lib.dll, API + "gt_add")
            f.restype = None
            lib.O.fill(0xCD, 576)
            f(lib.O.ptr, lib.A.ptr, lib.B.ptr)
            got = F.tower_to_flat(conv.b_fq12(lib.O.read(576)))
            ctx.count(c, (t + u) % R == 0 or t % R == 0 or u % R == 0, "gt_add")
            expect(got == PR.gt_pow_gen(t + u), "gt_add/value", lambda: "t=%x u=%x" % (t, u))
        else:
            f = getattr(lib.dll, API + "gt_equal")
            f.restype = ctypes.c_bool
            r = 1 if f(lib.A.ptr, lib.B.ptr) else 0
            e = 1 if (t - u) % R == 0 else 0
            ctx.count(c, True, "gt_equal:%d" % e)
            expect(r == e, "gt_equal/value", lambda: "t=%x u=%x got=%d" % (t, u, r))
        return
    # random exponents
    lib.set_random(c["stream"], c["seed"])
    if op == "px_random":
        lib.fn("vf_px_random", None)(lib.O.ptr, lib.B.ptr)
        cs = conv.px_unpack(lib, lib.O.read(lib.sizeof("PowersOfX")))
        y = conv.ib(lib.B.read(32))
        req = lib.rand_requested()
        rej = req > 32
        ctx.count(c, rej, "px_random:%s%s" % (c["sk"], ":rejected" if rej else ""))
        expect(y < R, "PowersOfX::random/range", lambda: "stream=%s y=%x" % (c["stream"].hex(), y))
        expect(all(d < ABS_X for d in cs), "PowersOfX::random/digit-range", lambda: "stream=%s digits=%r" % (c["stream"].hex(), cs))
        expect(sum(d * ABS_X**i for i, d in enumerate(cs)) == y, "PowersOfX::random/consistency", lambda: "digits=%r y=%x" % (cs, y))
        return
    lib.A.write(A)
    dst = lib.A if al else lib.O
    lib.O.fill(0xCD, 576)
    if op == "multiply_random":
        f = getattr(lib.dll, API + "gt_multiply_random")
        f.restype = None
        f(dst.ptr, lib.B.ptr, lib.A.ptr, lib.rand_fn)
    else:
        lib.fn("vf_fq12_random_gt", None)(dst.ptr, lib.B.ptr, lib.A.ptr)
    out = dst.read(576)
    y = conv.ib(lib.B.read(32))
    req = lib.rand_requested()
    rej = req > 32
    got = F.tower_to_flat(conv.b_fq12(out))
    ctx.count(c, rej or bool(al), "%s:%s%s" % (op, c["sk"], ":rejected" if rej else ""))
    expect(y < R, "%s/range" % op, lambda: "stream=%s y=%x" % (c["stream"].hex(), y))
    expect(got == PR.gt_pow_gen(t * y), "%s/%s" % (op, "inplace" if al else "value"), lambda: "t=%x stream=%s y=%x" % (t, c["stream"].hex(), y))


def static_checks(tier, vseed):
    """Coarse uniformity of the sampled exponent (PRF-expanded streams, deterministic given the seed)."""
    from .. import lib as libmod
    lib = libmod.get("asm")
    n = 4096 if tier == "quick" else 65536
    lib.set_random(b"", vseed ^ 0xC07)
    f = lib.fn("vf_px_random", None)
    hist = [0] * 16
    seen = set()
    for _ in range(n):
        f(lib.O.ptr, lib.B.ptr)
        y = conv.ib(lib.B.read(32))
        hist[y >> 252] += 1
        seen.add(y)
    probs = [0.0] * 16
    for j in range(16):
        lo, hi = j << 252, (j + 1) << 252
        probs[j] = max(0, min(hi, R) - lo) / R
    chi = sum((hist[j] - n * probs[j]) ** 2 / (n * probs[j]) for j in range(16) if probs[j] > 0)
    bad_bins = sum(hist[j] for j in range(16) if probs[j] == 0)
    fails = []
    # 7 degrees of freedom: P(chi2 > 57) < 1e-9
    if chi > 57 or bad_bins or len(seen) != n:
        fails.append(("static-uniformity", "asm", {"d": {"hist": [{"i": hex(h)} for h in hist]}}, "PowersOfX::random/uniformity",
                      "top-4-bit histogram %r of %d samples: chi2=%.1f, %d samples >= r, %d distinct" % (hist, n, chi, bad_bins, len(seen))))
    return {"evaluations": n, "classes": {"static-uniformity-samples": n}, "samples": {"static-uniformity": ["hist=%r chi2=%.2f" % (hist, chi)]},
            "failures": fails, "nontrivial": [b"unif%d" % i for i in range(2)], "extra": {"uniformity_chi2": round(chi, 2), "uniformity_hist": hist}}


def prebuild(tier):
    PR.self_test()
    PR.gt_pow_gen(3)


SUBCHECKS = [
    Sub("gt", cases(), check, 40000, 400000, ("asm",), ("asm", "p32")),
]
