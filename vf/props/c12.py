"""C12 - WKD-IBE: keys open only matching ciphertexts; hidden slots cannot be filled."""
import ctypes

from hypothesis import strategies as st

from .. import conv
from ..ref import fields as F
from ..ref import pairing as PR
from ..runner import Sub, expect
from ..wk import FREE, HIDDEN, Attrs, apply_attrs, fixed_of, free_of  # noqa: F401
from . import c11

RULE = ("Generated: a delegation history (C11 generator), a key of it, and one probe (every probe ciphertext of kind (a) is also compared, component by component, with (msg*e(g1,g2)^s, g^s, (g3*prod h^v)^s) for the exponent s drawn from the stream): (a) a ciphertext attribute list that differs "
        "from the key's pattern in exactly one slot - other value, extra slot set, fixed slot missing - or is equivalent modulo r / "
        "identical (these must decrypt); (b) an attempt to give a value to a hidden slot of the key through qualifykey, "
        "nondelegable_qualifykey or adjust_nondelegable followed by decryption of a ciphertext with that slot set; (c) a single-component "
        "modification of a valid ciphertext (a*GTgen, b+g2gen, c+g1gen). Oracle: decryption returns the message exactly when the "
        "effective patterns agree (absent = 0, values mod r); tampered ciphertexts never decrypt to the message (a false pass has "
        "probability ~2^-255). Every negative probe is non-trivial; mod-r positives are counted apart.")
ASSUMPTIONS = c11.ASSUMPTIONS + ["negative expectations hold up to a 2^-255 coincidence"]

R = F.R_ORDER


@st.composite
def cases(draw):
    h = draw(c11.histories(max_steps=4, force_last=("keygen", "nd_keygen", "qualify", "nd_qualify", "qualify", "nd_qualify")))
    probe = draw(st.sampled_from(("other_value", "extra_slot", "missing_slot", "equiv_mod_r", "same", "fill_hidden", "fill_hidden", "fill_hidden", "tamper", "flagged_ct")))
    # the probed key is usually the last one (whose list was generated with many hidden slots)
    nkeys = sum(1 for s_ in h["steps"] if s_["op"] in ("keygen", "nd_keygen", "qualify", "nd_qualify", "resample"))
    key = nkeys - 1 if draw(st.integers(0, 4)) else draw(st.integers(0, 7))
    return {"h": h, "probe": probe, "key": key, "slot": draw(st.integers(0, 7)), "v": draw(c11.value()),
            "via": draw(st.sampled_from(("qualify", "nd_qualify", "adjust", "set_then_hide"))), "comp": draw(st.sampled_from(("a", "b", "c", "b_inf", "c_inf", "b_inf_junk", "c_inf_junk"))),
            "stream": draw(st.binary(min_size=0, max_size=40)), "seed": draw(st.integers(0, 2**32))}


def effective(entries, l):
    e = [0] * l
    for i, v in entries:
        e[i] = 0 if v is None else v % R
    return e


def check(ctx, lib, c):
    h = c["h"]
    ex = c11.Exec(ctx, lib, h, check_level=0)
    try:
        ex.run_quiet()
        W = ex.W
        k = ex.keys[c["key"] % len(ex.keys)]
        pat = k["pattern"]
        l = h["l"]
        msg = conv.fq12_b(F.flat_to_tower(PR.gt_pow_gen(c["seed"] + 11)))
        s_enc = W.sampled_exponent(c["stream"], c["seed"])     # what the first encryption below draws from its random source
        fixed = fixed_of(pat)
        probe = c["probe"]
        slot = c["slot"] % l
        v = c["v"]
        key_eff = effective(fixed, l)
        if probe in ("other_value", "extra_slot", "missing_slot", "equiv_mod_r", "same"):
            entries = dict(fixed)
            if probe == "other_value" and fixed:
                i = fixed[slot % len(fixed)][0]
                entries[i] = (entries[i] + 1 + v) % (1 << 256)
            elif probe == "extra_slot":
                others = [i for i in range(l) if i not in entries]
                if others:
                    entries[others[slot % len(others)]] = v
            elif probe == "missing_slot" and fixed:
                del entries[fixed[slot % len(fixed)][0]]
            elif probe == "equiv_mod_r" and fixed:
                i = fixed[slot % len(fixed)][0]
                if entries[i] + R < (1 << 256):
                    entries[i] += R
            ent = sorted(entries.items())
            ct = W.encrypt(msg, ex.params, Attrs(ent))
            # the ciphertext binds message, attribute product and the drawn exponent exactly (mechanism of C12)
            bad = W.ct_mismatch(ct, W.params_view(ex.params), ent, msg, s_enc)
            expect(bad is None, "encrypt/component-" + str(bad), lambda: "ciphertext.%s is not the value determined by the list %r, the message and the exponent drawn from the random source" % (bad, ent))
            same = effective(ent, l) == key_eff
            got = W.decrypt(ct, sk=k["h"])
            ctx.count(c, not same or probe == "equiv_mod_r", "probe-%s:%s" % (probe, "match" if same else "differ"))
            expect((got == msg) == same, "decrypt/%s/%s" % (probe, "should-decrypt" if same else "decrypted-with-mismatching-pattern"),
                   lambda: "key pattern=%r ciphertext list=%r" % (pat, ent))
            return
        if probe == "flagged_ct":
            # the ciphertext list carries an attribute flagged omitFromKeys WITH a value: the flag concerns keys only, the
            # ciphertext is bound to every listed attribute (C12 mechanism: product over every listed attribute)
            others = [i for i in range(l) if i not in dict(fixed)]
            if not others or v % R == 0:
                ctx.count(c, False, "probe-flagged_ct:not-applicable")
                return
            i = others[slot % len(others)]
            ent3 = sorted([(a, b, False) for a, b in fixed] + [(i, v, True)])
            ct = W.encrypt(msg, ex.params, Attrs(ent3))
            ctx.count(c, True, "probe-flagged_ct")
            expect(W.decrypt(ct, sk=k["h"]) != msg, "decrypt/flagged-attribute-ignored", lambda: "key pattern=%r opens a ciphertext for %r" % (pat, ent3))
            plain = sorted(dict(fixed + [(i, v)]).items())
            ct2 = W.encrypt(msg, ex.params, Attrs(plain))
            if pat[i] == FREE:
                nk = W.qualify(ex.params, k["h"], Attrs(plain), l - len(plain), nondelegable=True)
                expect(W.decrypt(ct, sk=nk) == msg, "decrypt/flagged-attribute-value-changed", lambda: "a key for %r does not open a ciphertext for %r" % (plain, ent3))
            return
        if probe == "fill_hidden" and c["via"] == "set_then_hide":
            # a slot that was SET in one non-delegable qualification and is HIDDEN by a later adjustment must not be fillable
            free = free_of(pat)
            if not free or v % R == 0:
                ctx.count(c, False, "probe-fill_hidden:not-applicable")
                return
            i = free[slot % len(free)]
            set_list = sorted(dict(fixed + [(i, v)]).items())
            hide_list = sorted(dict(fixed + [(i, None)]).items(), key=lambda t: t[0])
            kl = W.get(2, k["h"], 2)
            nk0 = W.qualify(ex.params, k["h"], Attrs(set_list), l - len(set_list), nondelegable=True)
            nk = ex.clone_sk(nk0, kl)
            W.adjust_nd(nk, k["h"], Attrs(set_list), Attrs(hide_list))
            expect(W.sk_guard(nk) == 0, "adjust/set-then-hide/overrun", "wrote beyond the documented allocation")
            v2 = (v + 1) % R or 2
            target = sorted(dict(fixed + [(i, v2)]).items())
            nk2 = W.qualify(ex.params, nk, Attrs(target), l - len(target), nondelegable=True)
            ct = W.encrypt(msg, ex.params, Attrs(target))
            ctx.count(c, True, "probe-fill_hidden:set_then_hide")
            expect(W.decrypt(ct, sk=nk2) != msg, "adjust/hidden-slot-filled-after-set-then-hide", lambda: "parent pattern=%r: slot %d set by %r, hidden by adjustment, then filled with %r" % (pat, i, set_list, target))
            # positive control: the adjusted key still opens ciphertexts for its own pattern
            ct0 = W.encrypt(msg, ex.params, Attrs(fixed))
            expect(W.decrypt(ct0, sk=nk) == msg, "adjust/set-then-hide/positive-control", lambda: "pattern=%r" % (pat,))
            return
        if probe == "fill_hidden":
            if c["via"] == "set_then_hide":
                c = dict(c, via="adjust")
            hidden = [i for i, s in enumerate(pat) if s == HIDDEN]
            if not hidden or v % R == 0:
                ctx.count(c, False, "probe-fill_hidden:not-applicable")
                return
            i = hidden[slot % len(hidden)]
            ent = sorted(dict(fixed + [(i, v)]).items())
            via = c["via"]
            if via in ("qualify", "nd_qualify"):
                nk = W.qualify(ex.params, k["h"], Attrs(ent), l - len(ent), nondelegable=(via == "nd_qualify"))
            else:
                # adjust a non-delegable copy of the key: from = key's own fixed list, to = that list plus the hidden slot
                nk0 = W.qualify(ex.params, k["h"], Attrs(fixed), l - len(fixed), nondelegable=True)
                kl = W.get(2, k["h"], 2)
                nk = ex.clone_sk(nk0, kl)
                W.adjust_nd(nk, k["h"], Attrs(fixed), Attrs(ent))
            expect(W.sk_guard(nk) == 0, "%s/fill-hidden/overrun" % via, "wrote beyond the documented allocation")
            ct = W.encrypt(msg, ex.params, Attrs(ent))
            got = W.decrypt(ct, sk=nk)
            ctx.count(c, True, "probe-fill_hidden:%s" % via)
            expect(got != msg, "%s/hidden-slot-filled" % via, lambda: "key pattern=%r: slot %d is hidden but a key for %r decrypts" % (pat, i, ent))
            # the original key (slot hidden) must not decrypt it either
            expect(W.decrypt(ct, sk=k["h"]) != msg, "decrypt/hidden-slot-ignored", lambda: "pattern=%r list=%r" % (pat, ent))
            return
        # tamper with one ciphertext component
        ct = W.encrypt(msg, ex.params, Attrs(fixed))
        expect(W.decrypt(ct, sk=k["h"]) == msg, "decrypt/positive-control", lambda: "pattern=%r" % (pat,))
        blob = W.blob_bytes(ct, 3)
        a, b, cc = blob[:576], blob[576:576 + W.g2sz], blob[576 + W.g2sz:576 + W.g2sz + W.g1sz]
        comp = c["comp"]
        if comp == "a":
            a = W.gt_mul(a, lib.const("generator_pairing"))
        elif comp == "b":
            b = W.g2_add(b, lib.const("g2_one"))
        elif comp == "c":
            cc = W.g1_add(cc, lib.const("g1_one"))
        elif comp.startswith("b_inf"):
            # the component replaced by the identity: canonical (0,1,0), or the old coordinates with z = 0 (an identity just the same)
            b = lib.const("g2_zero") if comp == "b_inf" else b[:2 * (W.g2sz // 3)] + bytes(W.g2sz // 3)
        else:
            cc = lib.const("g1_zero") if comp == "c_inf" else cc[:2 * (W.g1sz // 3)] + bytes(W.g1sz // 3)
        ctypes.memmove(ct, a + b + cc, len(a + b + cc))
        # the caller's output object still holds the plaintext of the earlier decryption
        got = W.decrypt(ct, sk=k["h"], prefill=msg)
        got_m = W.decrypt(ct, msk=ex.msk, prefill=msg)
        # exact expectation from the decryption formula a * e(c, a1) / e(a0, b) with the library's single pairing (an identity
        # argument contributes 1)
        kv = W.sk_view(k["h"], max_slots=0)
        expected = W.gt_mul(W.gt_mul(a, W.pairing(cc, kv["a1"])), W.gt_inv(W.pairing(kv["a0"], b)))
        expect(got == expected, "decrypt/formula/%s" % comp, lambda: "decrypt of a ciphertext with modified %s is not a*e(c,a1)/e(a0,b): pattern=%r" % (comp, pat))
        expected_m = W.gt_mul(a, W.gt_inv(W.pairing(W.blob_bytes(ex.msk, 1)[:W.g1sz], b)))
        expect(got_m == expected_m, "decrypt_master/formula/%s" % comp, lambda: "master decryption of a ciphertext with modified %s is not a/e(msk,b): pattern=%r" % (comp, pat))
        ctx.count(c, True, "probe-tamper:%s" % c["comp"])
        if "_inf" not in comp:
            # (with an identity written over a component the formula above is the whole expectation: if the encryption exponent
            # happened to be 0 the component was the identity already and the message still comes out)
            expect(got != msg, "decrypt/tampered-%s" % comp, lambda: "pattern=%r" % (pat,))
            if comp != "c":
                expect(got_m != msg, "decrypt_master/tampered-%s" % comp, "master decryption ignores a ciphertext component")
    finally:
        ex.close()


def prebuild(tier):
    PR.gt_pow_gen(3)


SUBCHECKS = [
    Sub("probes", cases(), check, 12000, 120000, ("asm",), ("asm", "p32")),
]
