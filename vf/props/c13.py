"""C13 - WKD-IBE signatures verify exactly for the signed message and attribute list."""
import ctypes

from hypothesis import strategies as st

from .. import conv, gens
from ..ref import fields as F
from ..runner import Sub, expect
from ..wk import FREE, HIDDEN, Attrs, fixed_of, free_of
from . import c11

RULE = ("Generated: a delegation history with signature support (C11 generator), a key of it, an extension list = the key's fixed "
        "slots (equal values, possibly another representative mod r) plus a drawn subset of its free slots with drawn values, a "
        "message scalar from the boundary mixture in [0,2^256), and one perturbation: none, message+1, message+r (must still verify), "
        "another list (one value changed / slot dropped / slot added), entries of the signed and of the verified list carrying the "
        "omit-from-keys flag together with their value (the flag concerns key derivation only: signing and verification must use every "
        "listed value), a hidden slot of the key set, each signature component shifted "
        "by a generator, verification through the precomputed form, signing through sign_precomputed with and without the list. "
        "Oracle: verify <=> (list, message mod r) equal the signed ones (absent = 0, values mod r); direct and precomputed forms agree; signature.a1 == key.a1 * g^s for the exponent s drawn from the stream. "
        "Non-trivial = any perturbation, or an extension that fills a free slot lying behind two or more fixed entries.")
ASSUMPTIONS = c11.ASSUMPTIONS + ["signatures are only specified for parameters created with signature support", "negative expectations hold up to a 2^-255 coincidence"]

R = F.R_ORDER
PERT = ("none", "none", "msg+1", "msg+r", "list_value", "list_drop", "list_add", "hidden_set", "sig_a0", "sig_a1", "verify_pre", "sign_pre", "sign_pre_null")


@st.composite
def cases(draw):
    h = draw(c11.histories(max_steps=4, signatures=True))
    return {"h": h, "key": draw(st.integers(0, 7)), "fill": draw(st.lists(st.booleans(), min_size=8, max_size=8)),
            "vals": [draw(c11.value()) for _ in range(8)], "msg": draw(gens.scalars(256))[1], "pert": draw(st.sampled_from(PERT)),
            "slot": draw(st.integers(0, 7)), "v": draw(c11.value()), "stream": draw(st.binary(min_size=0, max_size=40)), "seed": draw(st.integers(0, 2**32)),
            "alt": draw(st.booleans()), "flag_sign": draw(st.integers(0, 255)) if draw(st.integers(0, 3)) == 0 else 0,
            "flag_verify": draw(st.integers(0, 255)) if draw(st.integers(0, 5)) == 0 else 0}


def eff(entries, l):
    e = [0] * l
    for i, v in entries:
        e[i] = 0 if v is None else v % R
    return e


def check(ctx, lib, c):
    h = c["h"]
    ex = c11.Exec(ctx, lib, h, check_level=0)
    try:
        ex.run_quiet()
        W = ex.W
        k = ex.keys[c["key"] % len(ex.keys)]
        pat, l = k["pattern"], h["l"]
        fixed = fixed_of(pat)
        free = free_of(pat)
        ent = {}
        for i, v in fixed:
            ent[i] = v + R if c["alt"] and v + R < (1 << 256) else v
        filled = 0
        for i in free:
            if c["fill"][i]:
                ent[i] = c["vals"][i]
                filled += 1
        signed = sorted(ent.items())
        fs, fv = c.get("flag_sign", 0), c.get("flag_verify", 0)

        def flagged(entries, mask):
            # entry (idx, value, flag): flag set on the slots selected by mask, the value is kept
            return [(i, v, bool(mask >> i & 1)) for i, v in entries]
        msg = c["msg"]
        pert = c["pert"]
        s_drawn = W.sampled_exponent(c["stream"], c["seed"])
        pre = W.precompute(ex.params, Attrs(flagged(signed, fs)))
        if pert == "sign_pre":
            sig = W.sign(ex.params, k["h"], Attrs(flagged(signed, fs)), msg, pre=pre)
        elif pert == "sign_pre_null":
            # without a list only the key's own pattern can be signed
            signed = sorted(dict(fixed).items())
            pre = W.precompute(ex.params, Attrs(signed))
            sig = W.sign(ex.params, k["h"], None, msg, pre=pre, attrs_null=True)
        else:
            sig = W.sign(ex.params, k["h"], Attrs(flagged(signed, fs)), msg)
        vlist, vmsg = dict(signed), msg
        # the signature is randomised by exactly the exponent drawn from the caller's random source: a1 = key.a1 * g^s
        ka1 = W.sk_view(k["h"], max_slots=0)["a1"]
        sa1 = W.blob_bytes(sig, 4)[W.g1sz:W.g1sz + W.g2sz]
        expect(W.g2_eq(sa1, W.g2_add(ka1, W.g2_mul(W.params_view(ex.params)["g"], s_drawn))), "sign/randomiser",
               lambda: "signature.a1 != key.a1 * g^s for the s drawn first from the random source (s=%x)" % s_drawn)
        slot = c["slot"] % l
        if pert == "msg+1":
            vmsg = (msg + 1) % (1 << 256)
        elif pert == "msg+r":
            vmsg = msg + R if msg + R < (1 << 256) else msg - R if msg >= R else msg
        elif pert == "list_value" and vlist:
            i = sorted(vlist)[slot % len(vlist)]
            vlist[i] = (vlist[i] + 1 + c["v"]) % (1 << 256)
        elif pert == "list_drop" and vlist:
            del vlist[sorted(vlist)[slot % len(vlist)]]
        elif pert == "list_add":
            others = [i for i in range(l) if i not in vlist]
            if others:
                vlist[others[slot % len(others)]] = c["v"]
        elif pert == "hidden_set":
            hidden = [i for i, s in enumerate(pat) if s == HIDDEN]
            if hidden:
                i = hidden[slot % len(hidden)]
                # sign for a list that sets a hidden slot: the key has no component for it, so the signature must not verify
                signed2 = sorted(dict(signed + [(i, c["v"])]).items())
                sig = W.sign(ex.params, k["h"], Attrs(signed2), msg)
                vlist = dict(signed2)
                ok = W.verify(ex.params, Attrs(signed2), sig, msg)
                ctx.count(c, True, "hidden_set")
                expect(ok == (c["v"] % R == 0), "verify/hidden-slot-set", lambda: "key pattern=%r signed list=%r verified=%r" % (pat, signed2, ok))
                return
        elif pert in ("sig_a0", "sig_a1"):
            blob = W.blob_bytes(sig, 4)
            a0, a1 = blob[:W.g1sz], blob[W.g1sz:W.g1sz + W.g2sz]
            if pert == "sig_a0":
                a0 = W.g1_add(a0, lib.const("g1_one"))
            else:
                a1 = W.g2_add(a1, lib.const("g2_one"))
            ctypes.memmove(sig, a0 + a1, len(a0 + a1))
        vent = sorted(vlist.items())
        same = eff(vent, l) == eff(signed, l) and vmsg % R == msg % R and pert not in ("sig_a0", "sig_a1")
        ok = W.verify(ex.params, Attrs(flagged(vent, fv)), sig, vmsg)
        ok_pre = W.verify(ex.params, None, sig, vmsg, pre=W.precompute(ex.params, Attrs(flagged(vent, fv))))
        # shape class: a filled free slot preceded by >= 2 fixed entries since the previous free slot
        deep = False
        run = 0
        for i in range(l):
            if isinstance(pat[i], tuple):
                run += 1
            elif pat[i] == FREE:
                if run >= 2 and i in ent:
                    deep = True
                run = 0
        fl_free = any((fs >> i & 1) and i in ent and pat[i] == FREE for i in range(l)) and pert != "sign_pre_null"
        if fl_free:
            ctx.event("flagged-entry-on-filled-free-slot")
        ctx.count(c, pert != "none" or deep or fl_free, "sig-%s%s%s:%s" % (pert, "-deep" if deep else "", "-flagged" if fl_free else "", "accept" if same else "reject"))
        detail = lambda: "key pattern=%r signed=%r (flag mask %#x) msg=%x verify list=%r (flag mask %#x) msg=%x" % (pat, signed, fs, msg, vent, fv, vmsg)
        expect(ok == same, "verify/%s/%s" % (pert, "rejected-valid" if same else "accepted-invalid"), detail)
        expect(ok_pre == ok, "verify_precomputed/disagrees", detail)
    finally:
        ex.close()


SUBCHECKS = [
    Sub("signatures", cases(), check, 12000, 120000, ("asm",), ("asm", "p32")),
]
