"""C20 - The core library is self-contained, stateless and re-entrant."""
import hashlib
import json
import os
import re
import shutil
import subprocess
import sys
import time

from hypothesis import strategies as st

from .. import build
from ..runner import Sub, Violation, expect

RULE = ("(a) Enumerated exhaustively: every object file of the library built as {clang++, g++} x {x86-64 assembly, portable} x {64-bit, "
        "32-bit words} x {-O0, -Os, -Ofast} plus a thumbv6m cross build with the Makefile's embedded flags; undefined symbols must be "
        "C memory primitives, compiler arithmetic helpers or the library's own symbols (no allocation, stdio, locking, thread-safe-static "
        "guards, TLS, unwinder); writable (data/bss) symbols must be the known dispatch pointers / load-time constants. (b) Generated: "
        "workloads of 2-8 threads x 3-12 operations drawn from 16 API operations (in-place multiplication chains, scalar multiplication in G1/G2/GT, pairing, "
        "hash-to-curve, checked compressed round trips, sampling, WKD-IBE keygen/encrypt/decrypt/sign/verify on shared parameters, LQ-IBE) "
        "with drawn operand seeds; the driver computes every result sequentially, again sequentially in the opposite order (results must not "
        "depend on what was called before), then runs the threads concurrently from a barrier for "
        "several rounds on distinct output objects under ThreadSanitizer (portable build fully instrumented, assembly build for the "
        "dispatch table): every concurrent result must equal the sequential one and TSan must report nothing. Non-trivial = a workload in "
        "which at least two threads execute the same operation kind concurrently.")
ASSUMPTIONS = ["schedules are sampled, not enumerated; TSan's happens-before analysis flags unsynchronised shared state without the bad interleaving having to occur",
               "TSan sees only compiler-instrumented accesses (the assembly routines touch only their arguments)", "no liveness claim"]

WRITABLE_SECTION = re.compile(r"^\.(bss|data|tbss|tdata|sbss|sdata)(\.|$)")
ALLOWED_EXACT = {"memcpy", "memmove", "memset", "memcmp", "bcmp", "_GLOBAL_OFFSET_TABLE_"}
HELPER_RE = re.compile(r"^__(u?div|u?mod|mul|ashl|ashr|lshr|udivmod|divmod|neg|cmp|ucmp|clz|ctz|popcount|bswap)[a-z]*[sdt]i[234]$|^__aeabi_[a-z0-9_]+$")
OWN_RE = re.compile(r"^(embedded_pairing|_ZN?K?S?t?\d*16embedded_pairing|_ZN16embedded_pairing|_ZNK16embedded_pairing|_ZL|_ZZ|_ZGV|_ZTV|_ZTI|_ZTS)")
# Known writable symbols: the dispatch table and its CPU flag (written once by a static initialiser), constants that are
# initialised at load time and never written (lambda, the per-TU group_order copies), and the exported C pointer constants
# (pointers to const objects; the pointers themselves are not declared const, the library never writes them). core::Fp<...>::one is a
# const static data member of a class template initialised from a reference template argument: clang at -O0 initialises it at load
# time (weak symbol in .bss plus its guard variable) instead of folding it into .rodata; const, never written afterwards.
WRITABLE_OK = re.compile(r"^_Z(GV)?N16embedded_pairing4core2FpI.*E3oneE$|"
                         r"runtime_(fpbase_384_montgomery_reduce|bigint_768_multiply|bigint_768_square)E$|L21cpu_supports_bmi2_adxE$|22g1_endomorphism_lambdaE$|(lqibe|wkdibe)L11group_orderE$|"
                         r"^embedded_pairing_bls12_381_(group_order|g1_zero|g1affine_zero|g1affine_generator|g2_zero|g2affine_zero|g2affine_generator|gt_zero|gt_generator)$")

BUILDS = []
for cxx in ("clang++", "g++"):
    for asm in (True, False):
        for w32 in (False, True):
            if asm and w32:
                continue
            for opt in ("-O0", "-Os", "-Ofast"):
                flags = ([] if asm else ["-DDISABLE_ASM"]) + (["-U__SIZEOF_INT128__"] if w32 else []) + (["-fno-vectorize"] if cxx == "clang++" else [])
                BUILDS.append(("c20-%s-%s-%s-%s" % (cxx.replace("+", "p"), "asm" if asm else "port", "w32" if w32 else "w64", opt.strip("-")), cxx, flags, asm, [opt]))
EMBEDDED = ("c20-thumbv6m", "clang++", ["--target=thumbv6m-none-eabi", "-ffreestanding", "-mfloat-abi=soft", "-ffunction-sections", "-fdata-sections", "-fno-builtin", "-fshort-enums",
                                         "-fno-threadsafe-statics", "-fno-exceptions", "-fno-rtti", "-nostdinc++"], False, ["-Os"])


def audit_objects(tag, cxx, flags, use_asm, opt, extra_inc=()):
    r = build.repo()
    srcs, asm = build.lib_sources(use_asm)
    if "thumbv6m" in tag:
        srcs = [s for s in srcs] + [os.path.join(r, "src/core/arch/armv6_m/fp.cpp")]
        asm = []
    d = build.build_objects(tag, cxx, list(flags) + list(extra_inc), use_asm, opt, sources=(srcs, asm))
    undefined, defined, writable = {}, set(), {}
    for o in sorted(os.listdir(d)):
        if not o.endswith(".o"):
            continue
        # (sysv format: name|value|class|type|size|line|section. The section decides what is writable: function-local statics of
        # templates and inline functions are weak / unique symbols - classes u, V - which the one-letter class alone does not place.)
        out = subprocess.run(["llvm-nm" if "thumbv6m" in tag else "nm", "-f", "sysv", os.path.join(d, o)], stdout=subprocess.PIPE, stderr=subprocess.DEVNULL, text=True).stdout
        for line in out.splitlines():
            parts = [x.strip() for x in line.split("|")]
            if len(parts) != 7 or parts[0] == "Name":
                continue
            name, kind, section = parts[0], parts[2], parts[6]
            if kind == "U":
                undefined.setdefault(name, o)
            else:
                defined.add(name)
                if kind in "bBdD" or section == "*COM*" or (WRITABLE_SECTION.match(section) and not section.startswith(".data.rel.ro")):
                    writable[name] = o
    ext = {n: o for n, o in undefined.items() if n not in defined}
    return ext, writable, d


def classify_undefined(name):
    if name in ALLOWED_EXACT or HELPER_RE.match(name):
        return True
    if name.startswith("embedded_pairing_core_arch_"):     # the library's own assembly routines (not assembled in compile-only cross builds)
        return True
    return False


def static_checks(tier, vseed):
    fails, classes, samples, nontriv = [], {}, [], []
    work = os.path.join(build.BUILD, "c19-layout", "stubs")
    os.makedirs(work, exist_ok=True)
    from . import c19
    for k, v in c19.STUBS.items():
        open(os.path.join(work, k), "w").write(v)
    builds = list(BUILDS) + [EMBEDDED]
    if tier == "quick":
        # every compiler x back end x word size once, optimisation levels rotated; thorough does the full product
        keep = []
        for i, b in enumerate(BUILDS):
            if (i // 3 + i) % 3 == 0:
                keep.append(b)
        builds = keep + [EMBEDDED]
    nobj = 0
    for tag, cxx, flags, use_asm, opt in builds:
        inc = ["-isystem", work] if "thumbv6m" in tag else []
        try:
            ext, writable, d = audit_objects(tag, cxx, flags, use_asm, opt, inc)
        except build.BuildError as e:
            fails.append(("static-symbols", tag, {"t": [tag, "build"]}, "symbols/%s/does-not-build" % tag, str(e)[-800:]))
            continue
        n = len([o for o in os.listdir(d) if o.endswith(".o")])
        nobj += n
        classes["static-symbols/" + tag] = n
        nontriv += [("%s-%d" % (tag, i)).encode() for i in range(n)]
        bad = {nm: o for nm, o in ext.items() if not classify_undefined(nm)}
        for nm, o in sorted(bad.items()):
            fails.append(("static-symbols", tag, {"t": [tag, nm]}, "symbols/undefined/%s" % nm, "%s: %s references external symbol %s" % (tag, o, nm)))
        badw = {nm: o for nm, o in writable.items() if not WRITABLE_OK.search(nm)}
        for nm, o in sorted(badw.items()):
            fails.append(("static-symbols", tag, {"t": [tag, nm]}, "symbols/writable/%s" % re.sub(r"\d+", "", nm)[:60], "%s: %s defines writable state %s" % (tag, o, nm)))
        samples.append("%s: %d objects, external: %s; writable: %s" % (tag, n, sorted(ext), sorted(writable)))
    return {"evaluations": nobj, "classes": classes, "samples": {"static-symbols": samples[:1], "static-symbols-embedded": samples[-1:]},
            "failures": fails[:12], "nontrivial": nontriv, "extra": {"object_files_audited": nobj, "builds_audited": len(builds), "symbol_audit_exhaustive": True}}


# ---- dynamic part ------------------------------------------------------------------------------------
def build_driver(kind):
    """kind: 'p64' (fully instrumented portable code) or 'asm'."""
    use_asm = kind == "asm"
    srcs, asm = build.lib_sources(use_asm)
    drv = os.path.join(build.VERIF, "conc", "tsan_driver.cpp")
    h = build.tree_hash([drv])
    h.update(("tsan-" + kind).encode())
    out_dir = os.path.join(build.BUILD, "tsan-%s-%s" % (kind, h.hexdigest()[:20]))
    exe = os.path.join(out_dir, "tsan_driver")
    if os.path.exists(exe):
        os.utime(out_dir)
        return exe
    tmp = out_dir + ".tmp%d" % os.getpid()
    shutil.rmtree(tmp, ignore_errors=True)
    os.makedirs(tmp)
    flags = ["-std=c++17", "-O1", "-g", "-fsanitize=thread", "-fno-omit-frame-pointer", "-I" + os.path.join(build.repo(), "include")] + ([] if use_asm else ["-DDISABLE_ASM"])
    jobs, objs = [], []
    for i, s in enumerate(srcs + [drv]):
        o = os.path.join(tmp, "o%d.o" % i)
        objs.append(o)
        jobs.append(["clang++"] + flags + ["-c", s, "-o", o])
    for i, s in enumerate(asm):
        o = os.path.join(tmp, "a%d.o" % i)
        objs.append(o)
        jobs.append(["as", s, "-o", o])
    from concurrent.futures import ThreadPoolExecutor
    with ThreadPoolExecutor(max_workers=16) as ex:
        list(ex.map(build._run, jobs))
    build._run(["clang++", "-fsanitize=thread", "-pthread"] + objs + ["-o", os.path.join(tmp, "tsan_driver")])
    for o in objs:
        os.unlink(o)
    shutil.rmtree(out_dir, ignore_errors=True)
    os.rename(tmp, out_dir)
    build._prune("tsan-" + kind, 2)
    return exe


NUM_OPS = 16


@st.composite
def workloads(draw):
    T = draw(st.integers(2, 8))
    focus = draw(st.one_of(st.none(), st.integers(0, NUM_OPS - 1)))
    threads = []
    for _ in range(T):
        n = draw(st.integers(3, 12))
        ops = []
        for _ in range(n):
            op = focus if focus is not None and draw(st.booleans()) else draw(st.integers(0, NUM_OPS - 1))
            ops.append((op, draw(st.integers(0, 2**32))))
        threads.append(ops)
    return {"threads": threads, "rounds": draw(st.integers(2, 4)), "build": draw(st.sampled_from(("p64", "p64", "asm")))}


def check_workload(ctx, env, c):
    exe = env[c["build"]]
    threads = c["threads"]
    path = os.path.join(build.BUILD, "tsan-work-%d.txt" % os.getpid())
    with open(path, "w") as f:
        f.write("%d %d\n" % (len(threads), c["rounds"]))
        for ops in threads:
            f.write("%d %s\n" % (len(ops), " ".join("%d %d" % (o, s) for o, s in ops)))
    p = subprocess.run([exe, path], stdout=subprocess.PIPE, stderr=subprocess.STDOUT, text=True,
                       env=dict(os.environ, TSAN_OPTIONS="halt_on_error=0:exitcode=66:report_signal_unsafe=0:history_size=4"))
    kinds = [set(o for o, _ in ops) for ops in threads]
    shared = any(kinds[i] & kinds[j] for i in range(len(kinds)) for j in range(i + 1, len(kinds)))
    ctx.count(c, shared, "workload-%s-T%d" % (c["build"], len(threads)))
    out = p.stdout
    race = "WARNING: ThreadSanitizer" in out
    if race:
        m = re.search(r"WARNING: ThreadSanitizer: ([^\n]*)\n(?:.*\n){0,12}?\s+#0 (\S+)", out)
        where = m.group(2) if m else "?"
        raise Violation("concurrency/tsan-report", "ThreadSanitizer: %s at %s\n%s" % (m.group(1) if m else "report", where, out[:1500]))
    expect("mismatches=0" in out and p.returncode == 0, ("concurrency/result-depends-on-call-order" if "ORDER-MISMATCH" in out else "concurrency/result-differs-from-sequential"), lambda: "driver exit %d: %s" % (p.returncode, out[-800:]))


def setup_env(cfg):
    return {"p64": build_driver("p64"), "asm": build_driver("asm")}


def prebuild(tier):
    build_driver("p64")
    build_driver("asm")


SUBCHECKS = [
    Sub("concurrent", workloads(), check_workload, 160, 4000, ("tsan",), ("tsan",), setup=setup_env, nondeterministic=True),
]
