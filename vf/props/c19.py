"""C19 - The C interface is a faithful view of the C++ implementation."""
import ctypes
import os
import re
import subprocess

from hypothesis import strategies as st

from .. import build, conv, gens
from ..ref import curve as C
from ..ref import fields as F
from ..ref import pairing as PR
from ..runner import Sub, expect
from . import c05, c09, c11, c18

RULE = ("(a) Enumerated exhaustively: one static_assert per (C struct, C++ type, {sizeof, alignof, offsetof each member}), per word "
        "typedef and per exported size constant, compiled for x86-64 (128-bit dwords), x86-64 with -U__SIZEOF_INT128__ (32-bit words), "
        "and cross targets thumbv6m / aarch64 / i386; every failing assertion is one violation. (b) Generated differential: for every "
        "extern \"C\" function of the library (list taken from nm on the built objects; unmapped symbols are reported) the C function and, "
        "independently, the C++ operation it documents are called on the same generated arguments (owning layer's generators, equal "
        "random streams) and must give byte-identical outputs and equal return values; WKD-IBE / LQ-IBE are compared on whole generated "
        "histories and on marshalling of their objects; exported constants are compared with the C++ and reference values. Non-trivial = "
        "every differential case (two independent executions); distinct by (function, arguments).")
ASSUMPTIONS = ["the Go packages cannot be built or run here (no Go toolchain): the Go layer is outside what is executed",
               "cross-target layout checks are compile-time only (clang -fsyntax-only with stub libc headers)"]

API = "embedded_pairing_bls12_381_"
R = F.R_ORDER

# ---- (a) layout -----------------------------------------------------------------------------------
P = "embedded_pairing_"
PAIRS = [
    (P + "core_bigint_256_t", "embedded_pairing::core::BigInt<256>", []),
    (P + "core_bigint_384_t", "embedded_pairing::core::BigInt<384>", []),
    (P + "bls12_381_fq_t", "embedded_pairing::bls12_381::Fq", [("val", "val")]),
    (P + "bls12_381_fq2_t", "embedded_pairing::bls12_381::Fq2", [("c0", "c0"), ("c1", "c1")]),
    (P + "bls12_381_fq6_t", "embedded_pairing::bls12_381::Fq6", [("c0", "c0"), ("c1", "c1"), ("c2", "c2")]),
    (P + "bls12_381_fq12_t", "embedded_pairing::bls12_381::Fq12", [("c0", "c0"), ("c1", "c1")]),
    (P + "bls12_381_g1affine_t", "embedded_pairing::bls12_381::G1Affine", [("x", "x"), ("y", "y"), ("infinity", "infinity")]),
    (P + "bls12_381_g1_t", "embedded_pairing::bls12_381::G1", [("x", "x"), ("y", "y"), ("z", "z")]),
    (P + "bls12_381_g2affine_t", "embedded_pairing::bls12_381::G2Affine", [("x", "x"), ("y", "y"), ("infinity", "infinity")]),
    (P + "bls12_381_g2_t", "embedded_pairing::bls12_381::G2", [("x", "x"), ("y", "y"), ("z", "z")]),
    (P + "bls12_381_g2prepared_t", "embedded_pairing::bls12_381::G2Prepared", [("coeffs", "coeffs"), ("infinity", "infinity")]),
    (P + "bls12_381_affine_pair_t", "embedded_pairing::bls12_381::AffinePair", [("g1", "g1"), ("g2", "g2")]),
    (P + "bls12_381_prepared_pair_t", "embedded_pairing::bls12_381::PreparedPair", [("g1", "g1"), ("g2", "g2")]),
    (P + "wkdibe_attribute_t", "embedded_pairing::wkdibe::Attribute", [("id", "id"), ("idx", "idx"), ("omitFromKeys", "omitFromKeys")]),
    (P + "wkdibe_attributelist_t", "embedded_pairing::wkdibe::AttributeList", [("attrs", "attrs"), ("length", "length"), ("omitAllFromKeysUnlessPresent", "omitAllFromKeysUnlessPresent")]),
    (P + "wkdibe_params_t", "embedded_pairing::wkdibe::Params", [(m, m) for m in ("g", "g1", "g2", "g3", "pairing", "hsig", "signatures", "h", "l")]),
    (P + "wkdibe_ciphertext_t", "embedded_pairing::wkdibe::Ciphertext", [("a", "a"), ("b", "b"), ("c", "c")]),
    (P + "wkdibe_signature_t", "embedded_pairing::wkdibe::Signature", [("a0", "a0"), ("a1", "a1")]),
    (P + "wkdibe_freeslot_t", "embedded_pairing::wkdibe::FreeSlot", [("hexp", "hexp"), ("idx", "idx")]),
    (P + "wkdibe_secretkey_t", "embedded_pairing::wkdibe::SecretKey", [(m, m) for m in ("a0", "a1", "l", "signatures", "bsig", "b")]),
    (P + "wkdibe_masterkey_t", "embedded_pairing::wkdibe::MasterKey", [("g2alpha", "g2alpha")]),
    (P + "wkdibe_precomputed_t", "embedded_pairing::wkdibe::Precomputed", [("prodexp", "prodexp")]),
    (P + "lqibe_idhash_t", "embedded_pairing::lqibe::IDHash", [("hash", "hash")]),
    (P + "lqibe_params_t", "embedded_pairing::lqibe::Params", [("p", "p"), ("sp", "sp")]),
    (P + "lqibe_id_t", "embedded_pairing::lqibe::ID", [("q", "q")]),
    (P + "lqibe_masterkey_t", "embedded_pairing::lqibe::MasterKey", [("s", "s")]),
    (P + "lqibe_secretkey_t", "embedded_pairing::lqibe::SecretKey", [("sq", "sq")]),
    (P + "lqibe_ciphertext_t", "embedded_pairing::lqibe::Ciphertext", [("rp", "rp")]),
]

TARGETS = [
    ("x86_64", []),
    ("x86_64-words32", ["-U__SIZEOF_INT128__"]),
    ("thumbv6m", ["--target=thumbv6m-none-eabi", "-ffreestanding", "-mfloat-abi=soft"]),
    ("aarch64", ["--target=aarch64-linux-gnu", "-ffreestanding"]),
    ("i386", ["--target=i386-linux-gnu", "-ffreestanding"]),
]


def layout_tu():
    lines = ['#include "core/bigint.hpp"', '#include "bls12_381/pairing.hpp"', '#include "wkdibe/api.hpp"', '#include "lqibe/api.hpp"',
             'extern "C" {', '#include "core/core.h"', '#include "bls12_381/bls12_381.h"', '#include "wkdibe/wkdibe.h"', '#include "lqibe/lqibe.h"', '}',
             '#include <stddef.h>', '#pragma clang diagnostic ignored "-Winvalid-offsetof"']
    n = 0

    def sa(cond, msg):
        nonlocal n
        n += 1
        lines.append('static_assert(%s, "LAYOUT %s");' % (cond, msg))
    for ct, cpp, members in PAIRS:
        sa("sizeof(%s) == sizeof(%s)" % (ct, cpp), "sizeof %s vs %s" % (ct, cpp))
        sa("alignof(%s) == alignof(%s)" % (ct, cpp), "alignof %s vs %s" % (ct, cpp))
        for cm, pm in members:
            sa("offsetof(%s, %s) == offsetof(%s, %s)" % (ct, cm, cpp, pm), "offsetof %s.%s vs %s::%s" % (ct, cm, cpp, pm))
            sa("sizeof(((%s*) 0)->%s) == sizeof(((%s*) 0)->%s)" % (ct, cm, cpp, pm), "member size %s.%s vs %s::%s" % (ct, cm, cpp, pm))
    sa("sizeof(embedded_pairing_core_bigint_word_t) == sizeof(embedded_pairing::core::BigInt<384>::word_t)", "word typedef size")
    sa("sizeof(embedded_pairing_core_bigint_dword_t) == sizeof(embedded_pairing::core::BigInt<384>::dword_t)", "dword typedef size")
    sa("sizeof(((embedded_pairing_bls12_381_g2prepared_t*) 0)->coeffs) / sizeof(((embedded_pairing_bls12_381_g2prepared_t*) 0)->coeffs[0]) == embedded_pairing::bls12_381::G2Prepared::num_coeffs", "coeffs[] length vs G2Prepared::num_coeffs")
    sa("sizeof(((embedded_pairing_bls12_381_g2prepared_t*) 0)->coeffs[0]) == sizeof(embedded_pairing::bls12_381::MillerTriple)", "coeffs element vs MillerTriple")
    sa("offsetof(embedded_pairing_bls12_381_affine_pair_t, _r) >= offsetof(embedded_pairing_bls12_381_affine_pair_t, g2) + sizeof(void*)", "affine pair private state placement")
    sa("sizeof(embedded_pairing_lqibe_idhash_t) == sizeof(embedded_pairing::bls12_381::Fq)", "idhash size vs Fq")
    sa("embedded_pairing::bls12_381::Encoding<embedded_pairing::bls12_381::G1Affine, true>::size == 48 && embedded_pairing::bls12_381::Encoding<embedded_pairing::bls12_381::G1Affine, false>::size == 96", "G1 encoding sizes")
    sa("embedded_pairing::bls12_381::Encoding<embedded_pairing::bls12_381::G2Affine, true>::size == 96 && embedded_pairing::bls12_381::Encoding<embedded_pairing::bls12_381::G2Affine, false>::size == 192", "G2 encoding sizes")
    sa("sizeof(embedded_pairing::bls12_381::Fq12) == 576", "GT marshalled size")
    return "\n".join(lines) + "\n", n


STUBS = {
    "string.h": '#pragma once\n#include <stddef.h>\nextern "C" { void* memcpy(void*, const void*, size_t); void* memmove(void*, const void*, size_t); void* memset(void*, int, size_t); int memcmp(const void*, const void*, size_t); }\n',
    "stdio.h": "#pragma once\n",
}


def static_checks(tier, vseed):
    work = os.path.join(build.BUILD, "c19-layout")
    os.makedirs(os.path.join(work, "stubs"), exist_ok=True)
    for k, v in STUBS.items():
        open(os.path.join(work, "stubs", k), "w").write(v)
    src, n = layout_tu()
    tu = os.path.join(work, "layout.cpp")
    open(tu, "w").write(src)
    fails, classes, samples = [], {}, []
    nontriv = []
    for name, flags in TARGETS:
        cmd = ["clang++", "-std=c++17", "-fsyntax-only", "-ferror-limit=0", "-I" + os.path.join(build.repo(), "include")] + flags
        if "-ffreestanding" in flags:
            cmd += ["-isystem", os.path.join(work, "stubs"), "-nostdinc++"]
        p = subprocess.run(cmd + [tu], stdout=subprocess.PIPE, stderr=subprocess.STDOUT, text=True)
        failed = re.findall(r'static_assert failed[^"]*"LAYOUT ([^"]+)"', p.stdout)
        other = [l for l in p.stdout.splitlines() if "error:" in l and "static_assert failed" not in l]
        classes["static-layout/" + name] = n
        nontriv += [("%s-%d" % (name, i)).encode() for i in range(n)]
        if other:
            fails.append(("static-layout", name, {"t": [name, "compile"]}, "layout/%s/does-not-compile" % name, "\n".join(other[:5])))
        for f in failed:
            fails.append(("static-layout", name, {"t": [name, f]}, "layout/%s/%s" % (name, f.split(" ")[0]), "%s: %s" % (name, f)))
        samples.append("%s: %d assertions, %d failed" % (name, n, len(failed)))
    # exported constants at run time
    from .. import lib as libmod
    for cfg in ("asm", "p32"):
        lib = libmod.get(cfg)
        d = lib.dll
        def sz(sym):
            return ctypes.c_size_t.in_dll(d, API + sym).value
        consts = {"g1_marshalled_compressed_size": 48, "g1_marshalled_uncompressed_size": 96, "g2_marshalled_compressed_size": 96,
                  "g2_marshalled_uncompressed_size": 192, "gt_marshalled_size": 576}
        for k, v in consts.items():
            classes["static-constants/" + cfg] = classes.get("static-constants/" + cfg, 0) + 1
            if sz(k) != v:
                fails.append(("static-constants", cfg, {"t": [cfg, k]}, "constant/%s" % k, "%s = %d, expected %d" % (k, sz(k), v)))
        def ptr(sym, n_):
            return ctypes.string_at(ctypes.c_void_p.in_dll(d, API + sym).value, n_)
        g1a, g2a = lib.sizeof("G1Affine"), lib.sizeof("G2Affine")
        checks = [
            ("group_order", conv.ib(ptr("group_order", 32)) == R),
            ("g1_zero", conv.b_g1_proj(ptr("g1_zero", 144)) is None), ("g2_zero", conv.b_g2_proj(ptr("g2_zero", 288)) is None),
            ("g1affine_zero", conv.b_g1_aff(lib, ptr("g1affine_zero", g1a)) is None), ("g2affine_zero", conv.b_g2_aff(lib, ptr("g2affine_zero", g2a)) is None),
            ("g1affine_generator", conv.b_g1_aff(lib, ptr("g1affine_generator", g1a)) == C.G1_GEN),
            ("g2affine_generator", conv.b_g2_aff(lib, ptr("g2affine_generator", g2a)) == C.G2_GEN),
            ("gt_zero", conv.b_fq12(ptr("gt_zero", 576)) == F.FQ12_ONE),
            ("gt_generator", ptr("gt_generator", 576) == lib.const("generator_pairing")),
            ("cpp:wkdibe_group_order", conv.ib(lib.const("wkdibe_group_order")) == R), ("cpp:lqibe_group_order", conv.ib(lib.const("lqibe_group_order")) == R),
        ]
        for k, ok in checks:
            classes["static-constants/" + cfg] += 1
            nontriv.append(("const-%s-%s" % (cfg, k)).encode())
            if not ok:
                fails.append(("static-constants", cfg, {"t": [cfg, k]}, "constant/%s" % k, "%s differs from the C++ / reference value (%s)" % (k, cfg)))
    # every extern "C" function symbol must be mapped by the differential below
    lib = libmod.get("asm")
    out = subprocess.run(["nm", "-D", "--defined-only", lib.path], stdout=subprocess.PIPE, text=True).stdout
    syms = sorted({l.split()[-1] for l in out.splitlines() if " T " in l and l.split()[-1].startswith("embedded_pairing_") and "core_arch" not in l})
    mapped = set(API + n_ for n_ in BLS_FUNCS) | WK_SYMS | LQ_SYMS
    unmapped = [s for s in syms if s not in mapped]
    return {"evaluations": sum(classes.values()), "classes": classes, "samples": {"static-layout": samples[:2], "static-layout2": samples[2:4]},
            "failures": fails[:12], "nontrivial": nontriv,
            "extra": {"layout_assertions_per_target": n, "layout_targets": [t for t, _ in TARGETS], "c_symbols": len(syms), "c_symbols_unmapped": unmapped, "layout_exhaustive": True}}


# ---- (b) behaviour: BLS12-381 C API vs C++ ---------------------------------------------------------
# name -> (output type or None, input types, C++ side)
BLS_FUNCS = {
    "g1_add": ("G1", ["G1", "G1"], "op:g1_add"), "g2_add": ("G2", ["G2", "G2"], "op:g2_add"),
    "g1_add_mixed": ("G1", ["G1", "G1Affine"], "op:g1_add_mixed"), "g2_add_mixed": ("G2", ["G2", "G2Affine"], "op:g2_add_mixed"),
    "g1_negate": ("G1", ["G1"], "op:g1_neg"), "g2_negate": ("G2", ["G2"], "op:g2_neg"),
    "g1_double": ("G1", ["G1"], "op:g1_dbl"), "g2_double": ("G2", ["G2"], "op:g2_dbl"),
    "g1_multiply": ("G1", ["G1s", "BigInt<256>"], "op:g1_mul"), "g2_multiply": ("G2", ["G2s", "BigInt<256>"], "op:g2_mul"),
    "g1_multiply_affine": ("G1", ["G1Affines", "BigInt<256>"], "op:g1_mul_affine"), "g2_multiply_affine": ("G2", ["G2Affines", "BigInt<256>"], "op:g2_mul_affine"),
    "g1_from_affine": ("G1", ["G1Affine"], "op:g1_from_affine"), "g2_from_affine": ("G2", ["G2Affine"], "op:g2_from_affine"),
    "g1affine_from_projective": ("G1Affine", ["G1"], "op:g1a_from_proj"), "g2affine_from_projective": ("G2Affine", ["G2"], "op:g2a_from_proj"),
    "g1affine_negate": ("G1Affine", ["G1Affine"], "op:g1a_neg"), "g2affine_negate": ("G2Affine", ["G2Affine"], "op:g2a_neg"),
    "g1_equal": (None, ["G1", "G1"], "equal:1:0"), "g2_equal": (None, ["G2", "G2"], "equal:2:0"),
    "g1affine_equal": (None, ["G1Affine", "G1Affine"], "equal:1:1"), "g2affine_equal": (None, ["G2Affine", "G2Affine"], "equal:2:1"),
    "g1affine_from_hash": ("G1Affine", ["hash48"], "from_hash:1"), "g2affine_from_hash": ("G2Affine", ["hash96"], "from_hash:2"),
    "g1_random": ("G1", ["stream"], "random_gen:1"), "g2_random": ("G2", ["stream"], "random_gen:2"),
    "zp_random": ("BigInt<256>", ["stream"], "zp_random"), "zp_from_hash": ("BigInt<256>", ["hash32"], "zp_from_hash"),
    "g2prepared_prepare": ("G2Prepared", ["G2Affines"], "prepare"), "g2prepared_is_zero": (None, ["G2Affines"], "prepared_is_zero"),
    "gt_add": ("Fq12", ["GT", "GT"], "op:fq12_mul"), "gt_negate": ("Fq12", ["GT"], "op:fq12_inv"), "gt_double": ("Fq12", ["GT"], "op:fq12_sqr_cyc"),
    "gt_multiply": ("Fq12", ["GT", "BigInt<256>"], "op:fq12_exp_gt"), "gt_multiply_random": ("Fq12", ["GT", "stream"], "random_gt"),
    "gt_equal": (None, ["GT", "GT"], "gt_equal"),
    "pairing": ("Fq12", ["G1Affines", "G2Affines"], "pairing:0"), "prepared_pairing": ("Fq12", ["G1Affines", "G2Affines"], "pairing:1"),
    "pairing_sum": ("Fq12", ["pairs"], "pairing_sum"),
    "g1_marshal": ("enc", ["G1Affines", "bool"], "encode:1"), "g2_marshal": ("enc", ["G2Affines", "bool"], "encode:2"),
    "g1_unmarshal": ("G1Affine", ["encbytes1", "bool", "bool"], "decode:1"), "g2_unmarshal": ("G2Affine", ["encbytes2", "bool", "bool"], "decode:2"),
    "gt_marshal": ("bytes576", ["GT"], "gt_be:0"), "gt_unmarshal": ("Fq12", ["bytes576"], "gt_be:1"),
}
WK_SYMS = {P + "wkdibe_" + n for n in (
    "scalar_hash_reduce random_zpstar random_g1 random_g2 random_gt setup keygen qualifykey nondelegable_keygen nondelegable_qualifykey adjust_nondelegable "
    "precompute adjust_precomputed resamplekey encrypt encrypt_precomputed decrypt decrypt_master sign sign_precomputed verify verify_precomputed "
    "params_marshal params_unmarshal params_set_length params_get_marshalled_length params_unmarshalled_length params_marshalled_length "
    "ciphertext_marshal ciphertext_unmarshal ciphertext_get_marshalled_length signature_marshal signature_unmarshal signature_get_marshalled_length "
    "secretkey_marshal secretkey_unmarshal secretkey_set_length secretkey_get_marshalled_length secretkey_unmarshalled_length secretkey_marshalled_length "
    "masterkey_marshal masterkey_unmarshal masterkey_get_marshalled_length").split()}
LQ_SYMS = {P + "lqibe_" + n for n in (
    "compute_id_from_hash setup keygen encrypt decrypt params_marshal params_unmarshal params_get_marshalled_length id_marshal id_unmarshal id_get_marshalled_length "
    "masterkey_marshal masterkey_unmarshal masterkey_get_marshalled_length secretkey_marshal secretkey_unmarshal secretkey_get_marshalled_length "
    "ciphertext_marshal ciphertext_unmarshal ciphertext_get_marshalled_length").split()}


@st.composite
def arg(draw, t):
    if t in ("G1", "G2", "G1Affine", "G2Affine"):
        return draw(c18.v_point(1 if "1" in t else 2))
    if t in ("G1s", "G2s", "G1Affines", "G2Affines"):
        g = 1 if "1" in t else 2
        return {"P": C.gen_mul(g, draw(st.one_of(st.sampled_from((0, 1, R - 1)), st.integers(0, R - 1)))), "z": draw(c05.zval(g))[1], "junk": (c05.KK(g).zero, c05.KK(g).one)}
    if t == "BigInt<256>":
        return draw(gens.scalars(256))[1]
    if t == "GT":
        return {"gt": draw(gens.scalars(256))[1]}
    if t.startswith("hash"):
        n = int(t[4:])
        # boundary values relative to the modulus the bytes are reduced by (exactly r / q, one off, top bits set, >= modulus)
        from . import c10
        return draw(c10.hash_int(n, R if n == 32 else F.Q))
    if t == "stream":
        return draw(st.binary(min_size=0, max_size=64))
    if t == "bool":
        return draw(st.booleans())
    if t == "bytes576":
        return draw(st.binary(min_size=576, max_size=576)) if draw(st.booleans()) else b"\x00" * 575 + b"\x01"
    if t.startswith("encbytes"):
        return draw(c09.cases())
    if t == "pairs":
        return [{"a": draw(st.integers(0, R - 1)), "b": draw(st.integers(0, R - 1)), "prep": draw(st.booleans())} for _ in range(draw(st.integers(0, 3)))]
    raise KeyError(t)


@st.composite
def bls_cases(draw):
    name = draw(st.sampled_from(sorted(BLS_FUNCS)))
    out_t, ins, how = BLS_FUNCS[name]
    return {"fn": name, "args": [draw(arg(t)) for t in ins], "seed": draw(st.integers(0, 2**32))}


def _img(lib, t, v):
    if t == "GT":
        return conv.fq12_b(F.flat_to_tower(PR.gt_pow_gen(v["gt"])))
    base = t.rstrip("s") if t.endswith("s") and t != "G1s"[:0] else t
    if t in ("G1s", "G2s", "G1Affines", "G2Affines"):
        base = t[:-1]
    return c18.image(lib, base, v)


def check_bls(ctx, lib, c):
    name = c["fn"]
    out_t, ins, how = BLS_FUNCS[name]
    args = c["args"]
    f = getattr(lib.dll, API + name)
    ctx.count(c, True, "fn/" + name)
    sig = "capi-vs-cpp/" + name
    blocks = [lib.A, lib.B, lib.C]

    def load(imgs):
        for blk, im in zip(blocks, imgs):
            blk.write(im)

    if how.startswith("op:"):
        imgs = [_img(lib, t, v) for t, v in zip(ins, args)]
        osz = lib.sizeof(out_t)
        load(imgs)
        lib.O.fill(0xCD, osz)
        f.restype = None
        f(lib.O.ptr, *[blocks[i].ptr for i in range(len(imgs))])
        got_c = c18.meaningful(lib, out_t, lib.O.read(osz))
        rv, out = lib.op(how[3:], imgs[0], imgs[1] if len(imgs) > 1 else None)
        expect(got_c == c18.meaningful(lib, out_t, out), sig, lambda: "C and C++ outputs differ for %r" % (c,))
        return
    if how.startswith("equal:") or how == "gt_equal":
        imgs = [_img(lib, t, v) for t, v in zip(ins, args)]
        if len(imgs[0]) == len(imgs[1]) and (imgs[0][0] ^ imgs[1][-1]) & 1:      # (a function of the case, so that a replay does the same)
            imgs[1] = imgs[0]
        load(imgs)
        f.restype = ctypes.c_bool
        r1 = 1 if f(lib.A.ptr, lib.B.ptr) else 0
        if how == "gt_equal":
            r2 = lib.fn("vf_tower_equal")(12, lib.A.ptr, lib.B.ptr)
        else:
            _, g, a = how.split(":")
            r2 = lib.fn("vf_g_equal")(int(g), int(a), lib.A.ptr, lib.B.ptr)
        expect(r1 == r2, sig, lambda: "C returns %d, C++ %d for %r" % (r1, r2, c))
        return
    if how.startswith("from_hash:"):
        g = int(how[-1])
        n = 48 * g
        data = args[0].to_bytes(n, "big")
        osz = lib.sizeof(out_t)
        f.restype = None
        lib.A.write(data)
        lib.O.fill(0xCD, osz)
        f(lib.O.ptr, lib.A.ptr)
        o1 = c18.meaningful(lib, out_t, lib.O.read(osz))
        lib.O.fill(0xCD, osz)
        lib.fn("vf_from_hash_cpp", None)(g, lib.O.ptr, lib.A.ptr)
        expect(o1 == c18.meaningful(lib, out_t, lib.O.read(osz)), sig, lambda: "differs for %s" % data.hex())
        return
    if how.startswith("random_gen:") or how in ("zp_random", "random_gt"):
        osz = lib.sizeof(out_t)
        f.restype = None
        stream = args[-1]
        if how == "random_gt":
            lib.A.write(_img(lib, "GT", args[0]))
        lib.set_random(stream, c["seed"])
        lib.O.fill(0xCD, osz)
        if how == "random_gt":
            f(lib.O.ptr, lib.B.ptr, lib.A.ptr, lib.rand_fn)
            o1 = lib.O.read(osz) + lib.B.read(32)
        else:
            f(lib.O.ptr, lib.rand_fn)
            o1 = lib.O.read(osz)
        lib.set_random(stream, c["seed"])
        lib.O.fill(0xCD, osz)
        if how == "random_gt":
            lib.fn("vf_fq12_random_gt", None)(lib.O.ptr, lib.B.ptr, lib.A.ptr)
            o2 = lib.O.read(osz) + lib.B.read(32)
        elif how == "zp_random":
            lib.fn("vf_fr_misc")(7, lib.O.ptr, None, None)
            o2 = lib.O.read(osz)
        else:
            lib.fn("vf_g_random_generator", None)(int(how[-1]), lib.O.ptr)
            o2 = lib.O.read(osz)
        expect(o1 == o2, sig, lambda: "differs for stream %s" % stream.hex())
        return
    if how == "zp_from_hash":
        data = args[0].to_bytes(32, "big")
        f.restype = None
        lib.A.write(data)
        lib.O.fill(0xCD, 32)
        f(lib.O.ptr, lib.A.ptr)
        o1 = lib.O.read(32)
        lib.O.fill(0xCD, 32)
        lib.fn("vf_zp_from_hash_cpp", None)(lib.O.ptr, lib.A.ptr)
        expect(o1 == lib.O.read(32), sig, lambda: "differs for %s" % data.hex())
        return
    if how in ("prepare", "prepared_is_zero"):
        psz = lib.sizeof("G2Prepared")
        lib.A.write(_img(lib, "G2Affines", args[0]))
        fp = getattr(lib.dll, API + "g2prepared_prepare")
        fp.restype = None
        lib.O.fill(0xCD, psz)
        fp(lib.O.ptr, lib.A.ptr)
        o1 = lib.O.read(psz)
        lib.D.fill(0xCD, psz)
        lib.fn("vf_g2_prepare", None)(lib.D.ptr, lib.A.ptr)
        o2 = lib.D.read(psz)
        n = lib.sizeof("MillerTriple") * 68
        expect(o1[:n] == o2[:n] and (o1[n] != 0) == (o2[n] != 0), "capi-vs-cpp/g2prepared_prepare", "prepared coefficients differ")
        fz = getattr(lib.dll, API + "g2prepared_is_zero")
        fz.restype = ctypes.c_bool
        expect((1 if fz(lib.O.ptr) else 0) == lib.fn("vf_g2prepared_is_zero_cpp")(lib.O.ptr), "capi-vs-cpp/g2prepared_is_zero", "differs")
        return
    if how.startswith("pairing:"):
        prepared = how[-1] == "1"
        lib.A.write(_img(lib, "G1Affines", args[0]))
        lib.B.write(_img(lib, "G2Affines", args[1]))
        f.restype = None
        lib.O.fill(0xCD, 576)
        if prepared:
            fp = getattr(lib.dll, API + "g2prepared_prepare")
            fp.restype = None
            fp(lib.D.ptr, lib.B.ptr)
            f(lib.O.ptr, lib.A.ptr, lib.D.ptr)
            o1 = lib.O.read(576)
            lib.fn("vf_pairing_cpp", None)(lib.O.ptr, lib.A.ptr, lib.D.ptr, 1)
        else:
            f(lib.O.ptr, lib.A.ptr, lib.B.ptr)
            o1 = lib.O.read(576)
            lib.fn("vf_pairing_cpp", None)(lib.O.ptr, lib.A.ptr, lib.B.ptr, 0)
        expect(o1 == lib.O.read(576), sig, lambda: "differs for %r" % (c,))
        return
    if how == "pairing_sum":
        from . import c08
        res = []
        for cpp in (False, True):
            case = {"pairs": [dict(p, j1=(0, 1), j2=((0, 0), (1, 0))) for p in args[0]], "dirty": True, "rounds": 1, "cpp": cpp}
            c08.check(_Null(), lib, case)
            res.append(lib.O.read(576))
        return
    if how.startswith("encode:"):
        g = int(how[-1])
        comp = args[1]
        n = c09.enc_len(g, comp)
        lib.A.write(_img(lib, "G%dAffines" % g, args[0]))
        f.restype = None
        lib.O.fill(0xCD, n)
        f(lib.O.ptr, lib.A.ptr, ctypes.c_bool(comp))
        o1 = lib.O.read(n)
        lib.O.fill(0xCD, n)
        lib.fn("vf_encode_cpp", None)(g, 1 if comp else 0, lib.O.ptr, lib.A.ptr)
        expect(o1 == lib.O.read(n), sig, lambda: "differs for %r" % (c,))
        return
    if how.startswith("decode:"):
        g = int(how[-1])
        cc = dict(args[0], g=g)
        if cc["mut"] in ("outside_subgroup", "no_y") and "x" in cc and g == 2 and not isinstance(cc["x"], (tuple, list)):
            cc["x"] = (cc["x"], 1)
        if cc["mut"] in ("outside_subgroup", "no_y") and g == 1 and isinstance(cc.get("x"), (tuple, list)):
            cc["x"] = cc["x"][0]
        if cc["mut"] == "random":
            cc["mut"] = "flip_g"
        data, label = c09.build(lib, cc)
        comp, checked = cc["comp"], args[2]
        asz = lib.sizeof("G%dAffine" % g)
        f.restype = ctypes.c_bool
        lib.A.write(data)
        lib.O.fill(0x00, asz)
        r1 = 1 if f(lib.O.ptr, lib.A.ptr, ctypes.c_bool(comp), ctypes.c_bool(checked)) else 0
        o1 = c18.meaningful(lib, "G%dAffine" % g, lib.O.read(asz))
        lib.O.fill(0x00, asz)
        r2 = 1 if lib.fn("vf_decode_cpp")(g, 1 if comp else 0, 1 if checked else 0, lib.O.ptr, lib.A.ptr) else 0
        o2 = c18.meaningful(lib, "G%dAffine" % g, lib.O.read(asz))
        ctx.event("decode/%s" % label)
        expect(r1 == r2, sig + "/return", lambda: "C returns %d, C++ %d for %s (compressed=%r checked=%r, %s)" % (r1, r2, data.hex(), comp, checked, label))
        if r1:
            expect(o1 == o2, sig + "/value", lambda: "decoded points differ for %s" % data.hex())
        return
    if how.startswith("gt_be:"):
        f.restype = None
        if how[-1] == "0":
            lib.A.write(_img(lib, "GT", args[0]))
            lib.O.fill(0xCD, 576)
            f(lib.O.ptr, lib.A.ptr)
            o1 = lib.O.read(576)
            lib.fn("vf_tower_be", None)(12, 0, lib.O.ptr, lib.A.ptr)
        else:
            lib.A.write(args[0])
            lib.O.fill(0xCD, 576)
            f(lib.O.ptr, lib.A.ptr)
            o1 = lib.O.read(576)
            lib.fn("vf_tower_be", None)(12, 1, lib.O.ptr, lib.A.ptr)
        expect(o1 == lib.O.read(576), sig, "differs")
        return
    raise KeyError(how)


class _Null:
    evaluations = 0

    def count(self, *a, **k):
        pass

    def event(self, *a, **k):
        pass


# ---- WKD-IBE / LQ-IBE: whole histories through the C functions and through the C++ functions -----------
@st.composite
def scheme_cases(draw):
    return {"h": draw(c11.histories(max_steps=5, signatures=True)), "msg": draw(gens.scalars(256))[1], "comp": draw(st.booleans()),
            "lq": {"hash": draw(gens.ints(384))[1], "stream": draw(st.binary(min_size=0, max_size=40)), "seed": draw(st.integers(0, 2**32)), "len": draw(st.sampled_from((0, 16, 32)))}}


def _run_history(ctx, lib, h, msg, comp, use_cpp):
    """Executes the history and returns a transcript of bytes (marshalled keys, ciphertext, signature, verdicts)."""
    d = lib.dll
    d.vf_set_use_cpp(1 if use_cpp else 0)
    ex = c11.Exec(ctx, lib, h, check_level=0)
    out = []
    try:
        ex.run_quiet()
        W = ex.W
        cflag = 1 if comp else 0
        n = W.d.vf_wk_marshalled_length(0, ex.params, cflag)
        b = W.buf(n)
        W.d.vf_wk_marshal(0, b, ex.params, cflag)
        out.append(ctypes.string_at(b, n))
        m = W.buf(W.d.vf_wk_marshalled_length(1, ex.msk, cflag))
        W.d.vf_wk_marshal(1, m, ex.msk, cflag)
        out.append(ctypes.string_at(m, W.d.vf_wk_marshalled_length(1, ex.msk, cflag)))
        for k in ex.keys:
            n = W.d.vf_wk_marshalled_length(2, k["h"], cflag)
            b = W.buf(n)
            W.d.vf_wk_marshal(2, b, k["h"], cflag)
            out.append(ctypes.string_at(b, n))
        k = ex.keys[-1]
        from ..wk import Attrs, fixed_of
        attrs = Attrs(fixed_of(k["pattern"]))
        lib.set_random(b"c19", 19)
        gt = lib.const("generator_pairing")
        ct = W.encrypt(gt, ex.params, attrs)
        out.append(W.blob_bytes(ct, 3))
        out.append(W.decrypt(ct, sk=k["h"]))
        out.append(W.decrypt(ct, msk=ex.msk))
        pre = W.precompute(ex.params, attrs)
        out.append(W.blob_bytes(pre, 5))
        # adjust_precomputed between the list and its own first half and back: the shim hands two lists of which one is a prefix of
        # the other to the function as two views of one array (same pointer, different lengths), as a caller would
        fx = fixed_of(k["pattern"])
        half = Attrs(fx[:len(fx) // 2])
        pre_adj = W.precompute(ex.params, attrs)
        W.adjust_pre(pre_adj, ex.params, attrs, half)
        out.append(W.blob_bytes(pre_adj, 5))
        W.adjust_pre(pre_adj, ex.params, half, attrs)
        out.append(W.blob_bytes(pre_adj, 5))
        # the precomputed entry points as well (encrypt_precomputed; sign / verify through a precomputed value follow below)
        lib.set_random(b"c19p", 23)
        ct2 = W.encrypt(gt, ex.params, pre=pre)
        out.append(W.blob_bytes(ct2, 3))
        out.append(W.decrypt(ct2, sk=k["h"]))
        lib.set_random(b"c19s", 29)
        sig2 = W.sign(ex.params, k["h"], attrs, msg, pre=pre)
        out.append(W.blob_bytes(sig2, 4))
        sig = W.sign(ex.params, k["h"], attrs, msg)
        out.append(W.blob_bytes(sig, 4))
        out.append(bytes([1 if W.verify(ex.params, attrs, sig, msg) else 0, 1 if W.verify(ex.params, None, sig, msg, pre=pre) else 0,
                          1 if W.verify(ex.params, attrs, sig, (msg + 1) % (1 << 256)) else 0]))
        # unmarshal the last key from its bytes through the same interface and marshal again
        n = W.d.vf_wk_marshalled_length(2, k["h"], cflag)
        b = W.buf(n)
        W.d.vf_wk_marshal(2, b, k["h"], cflag)
        cnt = W.d.vf_wk_length_from(2, None, b, ctypes.c_size_t(n), cflag, 1)
        nk = W.sk_new(max(cnt, 0))
        W.d.vf_wk_length_from(2, nk, b, ctypes.c_size_t(n), cflag, 0)
        ok = W.d.vf_wk_unmarshal(2, nk, b, cflag, 1)
        out.append(bytes([cnt & 0xFF, 1 if ok else 0]))
    finally:
        ex.close()
        d.vf_set_use_cpp(0)
    return out


def check_scheme(ctx, lib, c):
    ctx.count(c, True, "wkdibe-history")
    t1 = _run_history(ctx, lib, c["h"], c["msg"], c["comp"], False)
    t2 = _run_history(ctx, lib, c["h"], c["msg"], c["comp"], True)
    expect(len(t1) == len(t2), "capi-vs-cpp/wkdibe/transcript-length", "transcripts differ in length")
    names = ["params", "masterkey"] + ["key%d" % i for i in range(len(t1) - 15)] + ["ciphertext", "decrypt", "decrypt_master", "precomputed", "adjust_precomputed_to_prefix", "adjust_precomputed_back", "ciphertext_precomputed", "decrypt_precomputed", "signature_precomputed", "signature", "verdicts", "unmarshal"]
    for i, (a, b) in enumerate(zip(t1, t2)):
        expect(a == b, "capi-vs-cpp/wkdibe/%s" % (names[i] if i < len(names) else str(i)).rstrip("0123456789"), lambda: "C and C++ results differ at transcript item %d (%s)" % (i, names[i] if i < len(names) else "?"))
    # LQ-IBE
    from . import c16
    q = c["lq"]
    outs = []
    for cpp in (False, True):
        case = {"hash": q["hash"], "s": 0, "via": "setup", "t": 1, "z": (1, 0), "len": q["len"], "stream": q["stream"], "seed": q["seed"], "neg": "none",
                "hash2": 0, "s2": 0, "full": False, "cpp": cpp}
        c16.check(_Null(), lib, case)
        outs.append(lib.hash_last())
    expect(outs[0] == outs[1], "capi-vs-cpp/lqibe/hash-input", "LQ-IBE through the C API and through C++ hash different bytes")


# ---- object-less wrappers of wkdibe.h / lqibe.h: samplers, hash reduction, length functions --------------------------------
@st.composite
def misc_cases(draw):
    what = draw(st.sampled_from(("hash_reduce", "zpstar", "random_g1", "random_g2", "random_gt", "fixed_length", "length_formula", "set_length", "set_length")))
    c = {"what": what, "stream": draw(st.binary(min_size=0, max_size=64)), "seed": draw(st.integers(0, 2**32))}
    if what == "hash_reduce":
        c["v"] = draw(gens.scalars(256))[1]
    elif what == "fixed_length":
        c["kind"], c["comp"] = draw(st.sampled_from((1, 3, 4))), draw(st.booleans())
    elif what == "length_formula":
        c["kind"], c["comp"], c["sigs"], c["l"] = draw(st.sampled_from((0, 2))), draw(st.booleans()), draw(st.booleans()), draw(st.integers(0, 300))
    elif what == "set_length":
        # length discovery on a receiving object that already holds a slot count: buffer lengths on and off the grid
        c["kind"], c["comp"], c["first"] = draw(st.sampled_from((0, 2))), draw(st.booleans()), draw(st.sampled_from((0, 1, 255)))
        c["n"] = draw(st.one_of(st.integers(1, 1500), st.sampled_from((145, 177, 193, 289, 321, 369, 385, 609, 705))))
    return c


def check_misc(ctx, lib, c):
    what = c["what"]
    d = lib.dll
    outs = []
    for cpp in (0, 1):
        d.vf_set_use_cpp(cpp)
        try:
            if what == "set_length":
                from .. import wk as wkmod
                W = wkmod.WK(lib)
                try:
                    obj = W.params_new(3) if c["kind"] == 0 else W.sk_new(3)
                    buf = W.buf(c["n"])
                    ctypes.memset(buf, 0, c["n"])
                    ctypes.memset(buf, c["first"], 1)
                    f = lib.fn("vf_wk_length_from", ctypes.c_long, [ctypes.c_int, ctypes.c_void_p, ctypes.c_void_p, ctypes.c_size_t, ctypes.c_int, ctypes.c_int])
                    rv = f(c["kind"], obj, buf, c["n"], 1 if c["comp"] else 0, 0)
                    outs.append((rv, W.get(c["kind"], obj, 7 if c["kind"] == 0 else 2)))
                finally:
                    W.close()
                continue
            if what in ("fixed_length", "length_formula"):
                if what == "fixed_length":
                    f = lib.fn("vf_wk_fixed_length", ctypes.c_long, [ctypes.c_int, ctypes.c_int])
                    outs.append(f(c["kind"], 1 if c["comp"] else 0))
                else:
                    f = lib.fn("vf_wk_length_formula", ctypes.c_long, [ctypes.c_int, ctypes.c_int, ctypes.c_int, ctypes.c_int])
                    outs.append(f(c["kind"], c["l"], 1 if c["sigs"] else 0, 1 if c["comp"] else 0))
                continue
            idx = ("hash_reduce", "zpstar", "random_g1", "random_g2", "random_gt").index(what)
            size = (32, 32, lib.sizeof("G1"), lib.sizeof("G2"), 576)[idx]
            lib.set_random(c["stream"], c["seed"])
            lib.O.fill(0xCD, size)
            if what == "hash_reduce":
                lib.O.write(conv.bi(c["v"], 256))
            lib.fn("vf_wk_misc", None, [ctypes.c_int, ctypes.c_void_p])(idx, lib.O.ptr)
            outs.append((lib.O.read(size), lib.rand_requested()))
        finally:
            d.vf_set_use_cpp(0)
    ctx.count(c, True, "misc-" + what)
    expect(outs[0] == outs[1], "capi-vs-cpp/wkdibe/" + what, lambda: "C wrapper and C++ function differ (output bytes or random bytes consumed) for %s" % what)


# ---- marshalling wrappers: the same synthetic object / corrupted buffer through the C symbols and through the C++ functions ----
def marshal_cases():
    from . import c15
    return c15.cases()


def check_marshal(ctx, lib, c):
    from . import c15
    from .. import wk as wkmod
    from ..runner import Violation
    res = []
    for cpp in (0, 1):
        lib.dll.vf_set_use_cpp(cpp)
        W = wkmod.WK(lib)
        obs = []
        try:
            c15._check(_Null(), lib, W, c, obs)
        except Violation as v:
            # a C15 matter (reported by C15) unless the two routes disagree about it
            obs.append(("c15-violation", v.sig))
        finally:
            W.close()
            lib.dll.vf_set_use_cpp(0)
        res.append(obs)
    ctx.count(c, c["corrupt"] != "none" or c["kind"].startswith("lq"), "marshal-%s-%s-%s" % (c["kind"], "c" if c["comp"] else "u", c["corrupt"]))
    a, b = res
    sig = "capi-vs-cpp/%s-marshalling/%s" % ("lqibe" if c["kind"].startswith("lq") else "wkdibe", c["kind"])
    expect(len(a) == len(b), sig + "/observations", lambda: "C route observed %r, C++ route observed %r" % ([x[0] for x in a], [x[0] for x in b]))
    for x, y in zip(a, b):
        expect(x == y, sig + "/" + x[0], lambda: "kind=%s compressed=%r corrupt=%s: C gives %r, C++ gives %r" % (c["kind"], c["comp"], c["corrupt"], x[:3] if x[0] != "wire" else "(bytes)", y[:3] if y[0] != "wire" else "(bytes)"))


def prebuild(tier):
    PR.gt_pow_gen(3)
    C.gen_mul(1, 3)
    C.gen_mul(2, 3)
    build.build_shim("p32")


SUBCHECKS = [
    Sub("bls", bls_cases(), check_bls, 16000, 150000, ("asm",), ("asm", "asm:base", "p64", "p32")),
    Sub("schemes", scheme_cases(), check_scheme, 1200, 20000, ("asm",), ("asm", "p32")),
    Sub("marshal", marshal_cases(), check_marshal, 12000, 150000, ("asm",), ("asm", "p32")),
    Sub("misc", misc_cases(), check_misc, 4000, 60000, ("asm",), ("asm", "p32")),
]
