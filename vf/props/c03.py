"""C03 - All field-arithmetic back ends compute the same function."""
import ctypes

from hypothesis import strategies as st

from .. import conv, gens
from ..ref import fields as F
from ..runner import Sub, expect
from . import c02

RULE = ("Generated: (primitive, operands, aliasing) for the eleven specialised primitives (BigInt<384> add/subtract/double, "
        "BigInt<768> multiply/square, FpBase<384> add/subtract/double/montgomery_reduce/multiply/square) with full-width and "
        "boundary-constructed operands (see C02), executed on every back end reachable on this host - x86-64 BMI2/ADX asm by symbol, "
        "x86-64 baseline asm by symbol, the run-time-dispatched C++ members with either routine set installed, portable 64-bit-word "
        "C++, portable 32-bit-word C++ - and on the shipped AArch64 and ARMv6-M assembly sources under instruction-level interpreters "
        "(subcheck 'arm'). Oracle: results and carry/borrow flags are bit-identical across back ends AND equal to the Python integer "
        "result. The generic multi-precision routines (all widths, shifts, word division, comparisons) are checked against Python "
        "integers in both word sizes as well. Non-trivial = boundary class of the pre-correction value (C02 rule), carry/borrow out, "
        "chain across >= 3 limbs, or aliased output.")
ASSUMPTIONS = ["Python integers", "the ARM interpreters implement the ARMv8-A / ARMv6-M semantics of the ~20 mnemonics used (trusted base; they agree with the reference on the unchanged tree)",
               "modular primitives are given canonical operands and the library's modulus, as every caller does"]

Q = F.Q
M384 = (1 << 384) - 1
SYM = "embedded_pairing_core_arch_x86_64_"
PRIMS = ("bi_add", "bi_sub", "bi_dbl", "bi_mul", "bi_sqr", "fp_add", "fp_sub", "fp_dbl", "fp_mred", "fp_mul", "fp_sqr")


def oracle(prim, a, b):
    """(return value or None, result integer, result bits)."""
    if prim == "bi_add":
        s = a + b
        return s >> 384, s & M384, 384
    if prim == "bi_sub":
        d = a - b
        return (1 if d < 0 else 0), d & M384, 384
    if prim == "bi_dbl":
        s = 2 * a
        return s >> 384, s & M384, 384
    if prim == "bi_mul":
        return None, a * b, 768
    if prim == "bi_sqr":
        return None, a * a, 768
    # modular add / subtract / double: one conditional correction, as every back end does it; for canonical operands this is the
    # residue, for the other 384-bit operands (the property quantifies over all of them) it is what the back ends must agree on
    if prim == "fp_add":
        t = a + b
        return None, ((t - Q) if (t & M384) >= Q or t >> 384 else t) & M384, 384
    if prim == "fp_sub":
        d = a - b
        return None, ((d + Q) if d < 0 else d) & M384, 384
    if prim == "fp_dbl":
        t = 2 * a
        return None, ((t - Q) if (t & M384) >= Q or t >> 384 else t) & M384, 384
    if prim == "fp_mred":
        return None, a * F.FQ_RINV % Q, 384
    if prim == "fp_mul":
        return None, a * b * F.FQ_RINV % Q, 384
    if prim == "fp_sqr":
        return None, a * a * F.FQ_RINV % Q, 384
    raise KeyError(prim)


class Backend:
    """A way of executing the primitives. run(prim, a, b, alias) -> (rv or None, result int)."""

    def __init__(self, name, lib):
        self.name, self.lib = name, lib
        self.qb = conv.bi(Q, 384)
        self.inv = F.FQ_INV & 0xFFFFFFFFFFFFFFFF


class Members(Backend):
    """Through the C++ members (whatever specialisation the configuration selects)."""

    def run(self, prim, a, b, alias):
        lib = self.lib
        al = "a" if alias else None
        A, B = conv.bi(a, 384), conv.bi(b, 384)
        if prim == "bi_add":
            rv, out = lib.op("bi384_add", A, B, alias=al)
            return rv, conv.ib(out)
        if prim == "bi_sub":
            rv, out = lib.op("bi384_sub", A, B, alias=al)
            return rv, conv.ib(out)
        if prim == "bi_dbl":
            rv, out = lib.op("bi384_shl1", A, alias=al)
            return rv, conv.ib(out)
        if prim == "bi_mul":
            rv, out = lib.op("bi768_mul", A, B)
            return None, conv.ib(out)
        if prim == "bi_sqr":
            rv, out = lib.op("bi768_sqr", A)
            return None, conv.ib(out)
        f = lib.dll
        lib.A.write(A)
        lib.B.write(B)
        lib.C.write(self.qb)
        dst = lib.A if alias else lib.O
        if not alias:
            lib.O.fill(0xCD, 48)
        for n in ("vf_fpb384_add", "vf_fpb384_sub", "vf_fpb384_dbl", "vf_fpb384_mred", "vf_fpb384_mul", "vf_fpb384_sqr"):
            getattr(f, n).restype = None
        if prim == "fp_add":
            f.vf_fpb384_add(dst.ptr, lib.A.ptr, lib.B.ptr, lib.C.ptr)
        elif prim == "fp_sub":
            f.vf_fpb384_sub(dst.ptr, lib.A.ptr, lib.B.ptr, lib.C.ptr)
        elif prim == "fp_dbl":
            f.vf_fpb384_dbl(dst.ptr, lib.A.ptr, lib.C.ptr)
        elif prim == "fp_mred":
            lib.D.write(conv.bi(a, 768))
            f.vf_fpb384_mred(lib.O.ptr, lib.D.ptr, lib.C.ptr, ctypes.c_uint64(self.inv))
            dst = lib.O
        elif prim == "fp_mul":
            f.vf_fpb384_mul(dst.ptr, lib.A.ptr, lib.B.ptr, lib.C.ptr, ctypes.c_uint64(self.inv))
        elif prim == "fp_sqr":
            f.vf_fpb384_sqr(dst.ptr, lib.A.ptr, lib.C.ptr, ctypes.c_uint64(self.inv))
        return None, conv.ib(dst.read(48))


class Symbols(Backend):
    """The x86-64 assembly routines called directly by symbol. bmi2: use the BMI2/ADX variants where they exist."""

    def __init__(self, name, lib, bmi2):
        super().__init__(name, lib)
        self.bmi2 = bmi2
        d = lib.dll
        self.f = {}
        for n, rt in (("bigint_384_add", ctypes.c_bool), ("bigint_384_subtract", ctypes.c_bool), ("bigint_384_multiply2", ctypes.c_uint64),
                      ("fpbase_384_add", None), ("fpbase_384_subtract", None), ("fpbase_384_multiply2", None)):
            fn = getattr(d, SYM + n)
            fn.restype = rt
            self.f[n] = fn
        pre = "bmi2_adx_" if bmi2 else ""
        for n in ("bigint_768_multiply", "bigint_768_square", "fpbase_384_montgomery_reduce"):
            fn = getattr(d, SYM + pre + n)
            fn.restype = None
            self.f[n] = fn
        # the same routines entered through the flag-setting trampoline
        self.f_flags = {}
        for n, fn in self.f.items():
            addr = ctypes.cast(fn, ctypes.c_void_p).value

            def via(*args, _addr=addr, _rt=fn.restype):
                t = d.vf_tramp_flags
                t.restype = _rt
                full = list(args) + [None] * (5 - len(args))
                return t(*(full[:5] + [ctypes.c_void_p(_addr)]))
            self.f_flags[n] = via

    def run(self, prim, a, b, alias):
        lib, f = self.lib, self.f
        if (a ^ (b >> 1)) & 1:
            # enter the routines with CF = OF = SF = 1, as after an earlier routine that borrowed: flags are not part of the ABI
            f = self.f_flags
        lib.A.write(conv.bi(a, 384))
        lib.B.write(conv.bi(b, 384))
        lib.C.write(self.qb)
        dst = lib.A if alias else lib.O
        if not alias:
            lib.O.fill(0xCD, 96)
        rv = None
        n = 48
        if prim == "bi_add":
            rv = 1 if f["bigint_384_add"](dst.ptr, lib.A.ptr, lib.B.ptr) else 0
        elif prim == "bi_sub":
            rv = 1 if f["bigint_384_subtract"](dst.ptr, lib.A.ptr, lib.B.ptr) else 0
        elif prim == "bi_dbl":
            rv = f["bigint_384_multiply2"](dst.ptr, lib.A.ptr)
        elif prim == "bi_mul":
            dst, n = lib.O, 96
            f["bigint_768_multiply"](dst.ptr, lib.A.ptr, lib.B.ptr)
        elif prim == "bi_sqr":
            dst, n = lib.O, 96
            f["bigint_768_square"](dst.ptr, lib.A.ptr)
        elif prim == "fp_add":
            f["fpbase_384_add"](dst.ptr, lib.A.ptr, lib.B.ptr, lib.C.ptr)
        elif prim == "fp_sub":
            f["fpbase_384_subtract"](dst.ptr, lib.A.ptr, lib.B.ptr, lib.C.ptr)
        elif prim == "fp_dbl":
            f["fpbase_384_multiply2"](dst.ptr, lib.A.ptr, lib.C.ptr)
        elif prim == "fp_mred":
            dst = lib.O
            lib.D.write(conv.bi(a, 768))
            f["fpbase_384_montgomery_reduce"](dst.ptr, lib.D.ptr, lib.C.ptr, ctypes.c_uint64(self.inv))
        elif prim == "fp_mul":
            lib.D.fill(0xCD, 96)
            f["bigint_768_multiply"](lib.D.ptr, lib.A.ptr, lib.B.ptr)
            f["fpbase_384_montgomery_reduce"](dst.ptr, lib.D.ptr, lib.C.ptr, ctypes.c_uint64(self.inv))
        elif prim == "fp_sqr":
            lib.D.fill(0xCD, 96)
            f["bigint_768_square"](lib.D.ptr, lib.A.ptr)
            f["fpbase_384_montgomery_reduce"](dst.ptr, lib.D.ptr, lib.C.ptr, ctypes.c_uint64(self.inv))
        return rv, conv.ib(dst.read(n))


_backends = {}


def backends(tier):
    from .. import lib as libmod
    key = tier
    if key not in _backends:
        asm = libmod.get("asm")
        bs = [Members("asm-dispatch", asm), Symbols("x86-bmi2-symbols", asm, True), Symbols("x86-base-symbols", asm, False),
              Members("asm-members-base", libmod.get("asm", "base")), Members("asm-members-bmi2", libmod.get("asm", "bmi2")),
              Members("portable64", libmod.get("p64")), Members("portable32", libmod.get("p32")),
              # the ARM binding layers (arch/aarch64/*.hpp, arch/armv6_m/*.hpp, armv6_m/fp.cpp) compiled for the host over plain-C symbols
              Members("glue-aarch64", libmod.get("glue-a64")), Members("glue-armv6m", libmod.get("glue-v6m"))]
        _backends[key] = bs
    return _backends[key]


@st.composite
def prim_cases(draw):
    prim = draw(st.sampled_from(PRIMS))
    alias = draw(st.booleans()) if prim not in ("bi_mul", "bi_sqr", "fp_mred") else False
    if prim.startswith("bi_"):
        ta, a = draw(gens.ints(384, Q))
        tb, b = draw(gens.ints(384, Q))
        if draw(st.integers(0, 3)) == 0 and prim in ("bi_add", "bi_sub"):
            # land the sum / difference on a chosen target
            tT, T = draw(gens.ints(384, Q))
            b = (T - a) & M384 if prim == "bi_add" else (a - T) & M384
            tb = "target-" + tT
        return {"prim": prim, "a": a, "b": b, "alias": alias, "ta": ta, "tb": tb}
    if prim == "fp_mred":
        c = draw(c02.mred_cases("fq"))
        return {"prim": prim, "a": c["A"], "b": 0, "alias": False, "ta": c["tU"], "tb": ""}
    op = {"fp_add": "add", "fp_sub": "sub", "fp_dbl": "dbl", "fp_mul": "mul", "fp_sqr": "sqr"}[prim]
    c = draw(c02.binop_cases("fq", op))
    if prim in ("fp_add", "fp_sub", "fp_dbl") and draw(st.integers(0, 3)) == 0:
        # any 384-bit operands, not only canonical ones
        ta, a = draw(gens.ints(384, Q))
        tb, b = draw(gens.ints(384, Q))
        if draw(st.booleans()):
            b, tb = a, "same-value"
        return {"prim": prim, "a": a, "b": b, "alias": alias, "ta": "raw-" + ta, "tb": "raw-" + tb}
    return {"prim": prim, "a": c["a"], "b": c["b"], "alias": alias, "ta": c["ta"], "tb": c["tb"]}


def prim_classes(prim, a, b):
    if prim == "bi_add":
        cl = ["carry-out"] if (a + b) >> 384 else []
        if c02.carry_chain(a, b) >= 3:
            cl.append("chain3")
        return cl
    if prim == "bi_sub":
        cl = ["borrow-out"] if a < b else []
        if c02.carry_chain(a, b, True) >= 3:
            cl.append("chain3")
        if a == b:
            cl.append("equal")
        return cl
    if prim == "bi_dbl":
        return ["carry-out"] if a >> 383 else []
    if prim in ("bi_mul", "bi_sqr"):
        x = a * (b if prim == "bi_mul" else a)
        cl = []
        if a in (0, 1, M384) or (prim == "bi_mul" and b in (0, 1, M384)):
            cl.append("special")
        if bin(x).count("1") > 700 or bin(a).count("1") > 370:
            cl.append("dense")
        return cl
    if prim == "fp_add":
        return c02.classify_pre(a + b, "fq")
    if prim == "fp_dbl":
        return c02.classify_pre(2 * a, "fq")
    if prim == "fp_sub":
        return (["borrow"] if a < b else []) + (["equal"] if a == b else [])
    if prim == "fp_mred":
        return c02.classify_pre(c02.mont_pre(a, "fq"), "fq")
    if prim == "fp_mul":
        return c02.classify_pre(c02.mont_pre(a * b, "fq"), "fq")
    return c02.classify_pre(c02.mont_pre(a * a, "fq"), "fq")


def check_prim(ctx, env, c):
    prim, a, b, alias = c["prim"], c["a"], c["b"], c["alias"]
    erv, eres, bits = oracle(prim, a, b)
    cl = prim_classes(prim, a, b)
    if alias:
        cl.append("aliased")
    ctx.count(c, bool(cl), prim + (":" + cl[0] if cl else ""))
    for k in cl:
        ctx.event("class/%s/%s" % (prim, k))
    for be in env:
        rv, res = be.run(prim, a, b, alias)
        ctx.event("backend/" + be.name)
        if erv is not None:
            expect(rv == erv, "%s/%s/flag" % (be.name, prim), lambda: "a=%x b=%x alias=%r flag=%r expected=%r" % (a, b, alias, rv, erv))
        expect(res == eres, "%s/%s/value" % (be.name, prim), lambda: "a=%x b=%x alias=%r got=%x expected=%x" % (a, b, alias, res, eres))


# ---- generic multi-precision routines against Python integers, both word sizes --------------------
WIDTHS = (64, 128, 256, 384, 512, 768)
GEN_OPS = ("add", "sub", "shl1", "shr1", "shl", "shr", "mul", "sqr", "mul_lower", "cmp", "flags", "divx", "be", "bit")
MULS = {"bi768_mul": (384, 384), "bi512_mul": (256, 256), "bi384_mul_128_256": (128, 256), "bi256_mul_128_128": (128, 128),
        "bi128_mul_64_64": (64, 64), "bi192_mul_64_128": (64, 128), "bi256_mul_64_192": (64, 192)}


@st.composite
def generic_cases(draw):
    op = draw(st.sampled_from(GEN_OPS))
    c = {"op": op}
    if op in ("add", "sub"):
        w = draw(st.sampled_from(WIDTHS))
        c["w"] = w
        c["a"] = draw(gens.ints(w))[1]
        c["b"] = draw(gens.ints(w))[1]
        if draw(st.integers(0, 2)) == 0:
            T = draw(gens.ints(w))[1]
            c["b"] = (T - c["a"]) % (1 << w) if op == "add" else (c["a"] - T) % (1 << w)
        c["alias"] = draw(st.booleans())
    elif op in ("shl1", "shr1"):
        c["w"] = draw(st.sampled_from((256, 384)))
        c["a"] = draw(gens.ints(c["w"]))[1]
        c["alias"] = draw(st.booleans())
    elif op in ("shl", "shr"):
        c["w"] = draw(st.sampled_from((256, 384, 768) if op == "shr" else (256, 384)))
        c["a"] = draw(gens.ints(c["w"]))[1]
        c["amt"] = draw(st.one_of(st.sampled_from((0, 1, 31, 32, 33, 63, 64, 65, 127, 128, c["w"] - 1, c["w"] - 32, c["w"] - 64, c["w"] - 65)), st.integers(0, c["w"] - 1)))
        c["alias"] = draw(st.booleans())
    elif op == "mul":
        c["name"] = draw(st.sampled_from(sorted(MULS)))
        wa, wb = MULS[c["name"]]
        c["a"] = draw(gens.ints(wa))[1]
        c["b"] = draw(gens.ints(wb))[1]
    elif op == "sqr":
        c["w"] = draw(st.sampled_from((256, 384)))
        c["a"] = draw(gens.ints(c["w"]))[1]
    elif op == "mul_lower":
        c["a"] = draw(gens.ints(384))[1]
        c["b"] = draw(gens.ints(384))[1]
    elif op in ("cmp", "flags", "bit", "be"):
        c["w"] = draw(st.sampled_from((64, 256, 384)))
        c["a"] = draw(gens.ints(c["w"]))[1]
        c["b"] = draw(gens.ints(c["w"]))[1]
        if draw(st.booleans()):
            c["b"] = c["a"] ^ (1 << draw(st.integers(0, c["w"] - 1))) if draw(st.booleans()) else c["a"]
        c["pos"] = draw(st.integers(0, c["w"] - 1))
    elif op == "divx":
        c["a"] = draw(gens.scalars(256))[1]
        if draw(st.booleans()):
            # quotient digits near the word boundary exercise the bit-serial division's overflow handling
            x = -F.X
            c["a"] = (draw(st.integers(0, (1 << 192) - 1)) * x + draw(st.sampled_from((0, 1, x - 1, x - 2, x >> 1)))) % (1 << 256)
    return c


def check_generic(ctx, lib, c):
    op = c["op"]
    a = c.get("a", 0)
    b = c.get("b", 0)
    al = "a" if c.get("alias") else None
    sig = "%s/bigint-%s" % (lib.cfg, op)
    if op in ("add", "sub"):
        w = c["w"]
        name = "bi%d_%s" % (w, op)
        pad = lib.sizeof("BigInt<%d>" % w) - w // 8
        rv, out = lib.op(name, conv.bi(a, w) + bytes(pad), conv.bi(b, w) + bytes(pad), alias=al)
        got = conv.ib(out[:w // 8])
        full = a + b if op == "add" else a - b
        erv = 1 if (full >> w if op == "add" else full < 0) else 0
        nontriv = erv == 1 or c02.carry_chain(a, b, op == "sub") >= 3 or bool(al)
        ctx.count(c, nontriv, "gen-%s-%d" % (op, w))
        expect(got == full % (1 << w), sig + "/%d/value" % w, lambda: "a=%x b=%x got=%x" % (a, b, got))
        if w != 64 or lib.word_bits == 32:
            # BigInt<64>::add/subtract with 128-bit dwords reads the padding half of the union: the flag is not defined there
            expect(rv == erv, sig + "/%d/flag" % w, lambda: "a=%x b=%x flag=%d expected=%d" % (a, b, rv, erv))
        return
    if op in ("shl1", "shr1"):
        w = c["w"]
        rv, out = lib.op("bi%d_%s" % (w, op), conv.bi(a, w), alias=al)
        got = conv.ib(out)
        if op == "shl1":
            e, erv = (a << 1) % (1 << w), a >> (w - 1)
        else:
            e, erv = a >> 1, (a & 1) << (lib.word_bits - 1)
        ctx.count(c, True, "gen-%s-%d" % (op, w))
        expect(got == e and rv & ((1 << lib.word_bits) - 1) == erv, sig + "/%d" % w, lambda: "a=%x got=%x rv=%x expected=%x/%x" % (a, got, rv, e, erv))
        return
    if op in ("shl", "shr"):
        w, amt = c["w"], c["amt"]
        rv, out = lib.op("bi%d_%s" % (w, op), conv.bi(a, w), None, amt, alias=al)
        got = conv.ib(out)
        W = lib.word_bits
        if op == "shl":
            e = (a << amt) % (1 << w)
            # bits shifted out of the top word (the word that ends up at the top), as a word
            erv = ((a << amt) >> w) & ((1 << (amt % W)) - 1) if amt % W else 0
        else:
            e = a >> amt
            wo, bo = amt // W, amt % W
            erv = (((a >> (W * wo)) & ((1 << W) - 1)) << (W - bo)) & ((1 << W) - 1) if bo else 0
        ctx.count(c, True, "gen-%s-%d" % (op, w) + (":aliased" if al else "") + (":>=word" if amt >= W else ""))
        expect(got == e, sig + "/%d/value%s" % (w, "/aliased" if al else ""), lambda: "a=%x amt=%d got=%x expected=%x" % (a, amt, got, e))
        expect(rv & ((1 << W) - 1) == erv, sig + "/%d/shifted-out" % w, lambda: "a=%x amt=%d rv=%x expected=%x" % (a, amt, rv & ((1 << W) - 1), erv))
        return
    if op == "mul":
        wa, wb = MULS[c["name"]]
        pa = lib.sizeof("BigInt<%d>" % wa) - wa // 8
        pb = lib.sizeof("BigInt<%d>" % wb) - wb // 8
        rv, out = lib.op(c["name"], conv.bi(a, wa) + bytes(pa), conv.bi(b, wb) + bytes(pb))
        got = conv.ib(out[:(wa + wb) // 8])
        ctx.count(c, True, "gen-" + c["name"])
        expect(got == a * b, sig + "/" + c["name"], lambda: "a=%x b=%x got=%x" % (a, b, got))
        return
    if op == "sqr":
        w = c["w"]
        rv, out = lib.op("bi%d_sqr" % (2 * w), conv.bi(a, w))
        got = conv.ib(out)
        ctx.count(c, True, "gen-sqr-%d" % w)
        expect(got == a * a, sig + "/%d" % w, lambda: "a=%x got=%x" % (a, got))
        return
    if op == "mul_lower":
        rv, out = lib.op("bi384_mul_lower", conv.bi(a, 384), conv.bi(b, 384))
        got = conv.ib(out)
        ctx.count(c, True, "gen-mul_lower")
        expect(got == (a * b) & M384, sig, lambda: "a=%x b=%x got=%x" % (a, b, got))
        return
    if op in ("cmp", "flags", "bit", "be"):
        w = c["w"]
        pad = lib.sizeof("BigInt<%d>" % w) - w // 8
        lib.A.write(conv.bi(a, w) + bytes(pad))
        lib.B.write(conv.bi(b, w) + bytes(pad))
        ctx.count(c, True, "gen-%s-%d" % (op, w))
        if op == "cmp":
            r1 = lib.fn("vf_bi_compare")(w, lib.A.ptr, lib.B.ptr)
            r2 = lib.fn("vf_bi_equal")(w, lib.A.ptr, lib.B.ptr)
            expect(r1 == (a > b) - (a < b) and r2 == (1 if a == b else 0), sig + "/%d" % w, lambda: "a=%x b=%x cmp=%d eq=%d" % (a, b, r1, r2))
        elif op == "flags":
            r = lib.fn("vf_bi_flags")(w, lib.A.ptr)
            e = (1 if a == 0 else 0) | (2 if a == 1 else 0) | (4 if a % 2 == 0 else 0) | (8 if a % 2 else 0)
            expect(r == e, sig + "/%d" % w, lambda: "a=%x flags=%d expected=%d" % (a, r, e))
        elif op == "bit":
            r = lib.fn("vf_bi_bit")(w, lib.A.ptr, c["pos"])
            expect(r == (a >> c["pos"]) & 1, sig + "/%d" % w, lambda: "a=%x pos=%d got=%d" % (a, c["pos"], r))
        else:
            lib.O.fill(0xCD, w // 8)
            lib.fn("vf_bi_be", None)(w, 0, lib.O.ptr, lib.A.ptr)
            wire = lib.O.read(w // 8)
            lib.fn("vf_bi_be", None)(w, 1, lib.B.ptr, lib.O.ptr)
            back = conv.ib(lib.B.read(w // 8))
            expect(wire == a.to_bytes(w // 8, "big") and back == a, sig + "/%d" % w, lambda: "a=%x wire=%s" % (a, wire.hex()))
        return
    if op == "divx":
        x = -F.X
        lib.A.write(conv.bi(a, 256))
        lib.O.fill(0xCD, 32)
        f = lib.fn("vf_bi_divide_x", ctypes.c_uint64)
        rem = f(lib.O.ptr, lib.A.ptr)
        quo = conv.ib(lib.O.read(32))
        ctx.count(c, True, "gen-divx")
        expect(quo == a // x and rem == a % x, sig, lambda: "a=%x quo=%x rem=%x expected %x %x" % (a, quo, rem, a // x, a % x))
        # in place as decomposition uses it
        f(lib.A.ptr, lib.A.ptr)
        expect(conv.ib(lib.A.read(32)) == a // x, sig + "/inplace", lambda: "a=%x" % a)
        return


# ---- modular add / subtract / double through the C++ members, any 384-bit operands, operands possibly one object ------------
@st.composite
def member_cases(draw):
    op = draw(st.sampled_from(("add", "sub", "dbl")))
    ta, a = draw(gens.ints(384, Q))
    tb, b = draw(gens.ints(384, Q))
    how = draw(st.sampled_from(("pair", "pair", "same-value", "same-object", "same-object")))
    if how != "pair":
        b, tb = a, ta
    if draw(st.integers(0, 2)) == 0:
        a, b = gens.below(a, Q), gens.below(b, Q)
        ta = "canon-" + ta
    alias = draw(st.sampled_from((None, None, "a"))) if how != "same-object" else "b=a"
    return {"op": op, "a": a, "b": b, "how": how, "alias": alias, "ta": ta, "tb": tb}


def check_member(ctx, lib, c):
    op, a, b, alias = c["op"], c["a"], c["b"], c["alias"]
    prim = {"add": "fp_add", "sub": "fp_sub", "dbl": "fp_dbl"}[op]
    _, exp, _ = oracle(prim, a, b)
    A, B = conv.bi(a, 384), conv.bi(b, 384)
    if op == "dbl":
        rv, out = lib.op("fq_dbl", A, alias="a" if alias == "a" else None)
    else:
        rv, out = lib.op("fq_" + op, A, B, alias=alias)
    raw = a >= Q or b >= Q
    ctx.count(c, raw or c["how"] != "pair" or alias is not None, "member-%s:%s%s%s" % (op, c["how"], ":raw" if raw else "", ":out=a" if alias == "a" else ""))
    got = conv.ib(out)
    expect(got == exp, "Fq::%s/%s" % ({"add": "add", "sub": "subtract", "dbl": "multiply2"}[op], "same-object" if alias == "b=a" else "value"),
           lambda: "a=%x b=%x (%s, out %s): got %x expected %x" % (a, b, c["how"], "= a" if alias == "a" else "separate", got, exp))


def setup_backends(cfg):
    return backends("x")


def prebuild(tier):
    from .. import build
    for c in ("asm", "p64", "p32", "glue-a64", "glue-v6m", "p64-O0"):
        build.build_shim(c)
    arm_backends("arm")      # assemble / expand the ARM sources once, before the workers fork


SUBCHECKS = [
    Sub("primitives", prim_cases(), check_prim, 30000, 700000, ("all",), ("all",), setup=setup_backends),
    Sub("members", member_cases(), check_member, 12000, 200000, ("asm", "asm:base", "p64", "p32", "glue-a64", "glue-v6m"), ("asm", "asm:base", "asm:bmi2", "p64", "p32", "glue-a64", "glue-v6m", "p64-O0")),
    Sub("generic", generic_cases(), check_generic, 40000, 300000, ("p64", "p32", "asm", "glue-a64", "glue-v6m"), ("p64", "p32", "asm", "glue-a64", "glue-v6m")),
]


# ---- ARM back ends under the interpreters ----------------------------------------------------------------
class ArmBackend:
    """Runs the eleven primitives on the AArch64 or ARMv6-M assembly sources of the working tree under vf/arm."""
    RES, A, B, P, T = 0x1000, 0x2000, 0x3000, 0x4000, 0x5000

    def __init__(self, arch, mov_flags=False):
        import os
        from ..arm import a64, thumb
        from .. import build as b
        r = b.repo()
        self.arch = arch
        self.name = "aarch64-asm(interpreted)" if arch == "a64" else "armv6m-asm(interpreted%s)" % (",mov-sets-flags" if mov_flags else "")
        if arch == "a64":
            d = os.path.join(r, "src/core/arch/aarch64")
            files = [os.path.join(d, "bigint.s"), os.path.join(d, "multiply.s")]
            listing = a64.assemble(files)
            self.progs = {k: a64.Program(v) for k, v in listing.items()}
            self.sym = {}
            for k, p in self.progs.items():
                for s in p.entry:
                    self.sym[s] = a64.Machine(p)
            self.pfx = "embedded_pairing_core_arch_aarch64_"
            self.word = 64
            self.faults = (a64.MemoryFault, a64.AbiFault)
        else:
            d = os.path.join(r, "src/core/arch/armv6_m")
            texts = [open(os.path.join(d, f)).read() for f in ("bigint.s", "multiply.s")]
            prog = thumb.Program(texts)
            from .. import lib as libmod
            p32 = libmod.get("p32")

            def reduce(m, res, a, p, _r3):
                av = bytes(m.mem[a:a + 48])
                pv = bytes(m.mem[p:p + 48])
                if conv.ib(pv) != Q:
                    raise thumb.ThumbError("reduce called with an unexpected modulus")
                rv, out = p32.op("fq_reduce", av)
                m.mem[res:res + 48] = out
                return 0
            self.machine = thumb.Machine(prog, {"embedded_pairing_core_arch_armv6_m_fpbase_384_reduce": reduce}, mov_sets_flags=mov_flags)
            self.pfx = "embedded_pairing_core_arch_armv6_m_"
            self.word = 32
            self.faults = (thumb.MemoryFault, thumb.AbiFault)

    def call(self, name, args, regions, stack_args=()):
        if self.arch == "a64":
            m = self.sym[self.pfx + name]
            return m, m.run(self.pfx + name, args, regions)
        return self.machine, self.machine.run(self.pfx + name, args, regions, stack_args)

    def _machines(self):
        return list(set(self.sym.values())) if self.arch == "a64" else [self.machine]

    def _load(self, m, a, b, t=None):
        m.mem[self.A:self.A + 48] = conv.bi(a, 384)
        m.mem[self.B:self.B + 48] = conv.bi(b, 384)
        m.mem[self.P:self.P + 48] = conv.bi(Q, 384)
        m.mem[self.RES:self.RES + 96] = b"\xCD" * 96
        if t is not None:
            m.mem[self.T:self.T + 96] = conv.bi(t, 768)

    def prim(self, name, a, b, dst, t=None, nargs=3):
        """Runs one assembly routine with standard buffers; returns (rv, result bytes reader)."""
        inv = F.FQ_INV & ((1 << self.word) - 1)
        m = self.sym[self.pfx + name] if self.arch == "a64" else self.machine
        m.init_flags = bool((a ^ (b >> 1)) & 1)      # enter with C = V = 1 on half of the cases
        self._load(m, a, b, t)
        regs = {
            "bigint_384_add": [dst, self.A, self.B], "bigint_384_subtract": [dst, self.A, self.B], "bigint_384_multiply2": [dst, self.A],
            "bigint_768_multiply": [self.RES, self.A, self.B], "bigint_768_square": [self.RES, self.A],
            "fpbase_384_multiply": [dst, self.A, self.B, self.P, inv], "fpbase_384_square": [dst, self.A, self.P, inv],
            "fpbase_384_montgomery_reduce": [self.RES, self.T, self.P, inv],
        }[name]
        stack = ()
        if self.arch != "a64" and len(regs) > 4:
            regs, stack = regs[:4], tuple(regs[4:])
        regions = [(self.RES, 96), (self.A, 48), (self.B, 48), (self.P, 48), (self.T, 96)]
        if self.arch == "a64":
            rv = m.run(self.pfx + name, regs, regions)
        else:
            rv = m.run(self.pfx + name, regs, regions, stack)
        return m, rv

    def run(self, prim, a, b, alias):
        dst = self.A if alias else self.RES
        rd = lambda m, addr, n: conv.ib(bytes(m.mem[addr:addr + n]))
        if prim == "bi_add":
            m, rv = self.prim("bigint_384_add", a, b, dst)
            return rv & 1 if rv in (0, 1) else rv, rd(m, dst, 48)
        if prim == "bi_sub":
            m, rv = self.prim("bigint_384_subtract", a, b, dst)
            return rv, rd(m, dst, 48)
        if prim == "bi_dbl":
            m, rv = self.prim("bigint_384_multiply2", a, b, dst)
            return rv, rd(m, dst, 48)
        if prim == "bi_mul":
            m, rv = self.prim("bigint_768_multiply", a, b, dst)
            return None, rd(m, self.RES, 96)
        if prim == "bi_sqr":
            m, rv = self.prim("bigint_768_square", a, b, dst)
            return None, rd(m, self.RES, 96)
        if prim == "fp_mul":
            m, rv = self.prim("fpbase_384_multiply", a, b, dst)
            return None, rd(m, dst, 48)
        if prim == "fp_sqr":
            m, rv = self.prim("fpbase_384_square", a, b, dst)
            return None, rd(m, dst, 48)
        if prim == "fp_mred":
            m, rv = self.prim("fpbase_384_montgomery_reduce", 0, 0, dst, t=a)
            return None, rd(m, self.RES, 48)
        # modular add / subtract / double: the generic FpBase code of fp.hpp composed from the assembly BigInt primitives
        if prim == "fp_add":
            m, carry = self.prim("bigint_384_add", a, b, self.RES)
            s = rd(m, self.RES, 48)
            if s >= Q or carry:
                m2, _ = self.prim("bigint_384_subtract", s, Q, self.RES)
                s = rd(m2, self.RES, 48)
            return None, s
        if prim == "fp_sub":
            m, borrow = self.prim("bigint_384_subtract", a, b, self.RES)
            s = rd(m, self.RES, 48)
            if borrow:
                m2, _ = self.prim("bigint_384_add", s, Q, self.RES)
                s = rd(m2, self.RES, 48)
            return None, s
        if prim == "fp_dbl":
            m, out = self.prim("bigint_384_multiply2", a, b, self.RES)
            s = rd(m, self.RES, 48)
            if s >= Q or out:
                m2, _ = self.prim("bigint_384_subtract", s, Q, self.RES)
                s = rd(m2, self.RES, 48)
            return None, s
        raise KeyError(prim)


_arm = {}


def arm_backends(cfg):
    if "x" not in _arm:
        _arm["x"] = [ArmBackend("a64"), ArmBackend("thumb", False), ArmBackend("thumb", True)]
    return _arm["x"]


def check_arm(ctx, env, c):
    prim, a, b, alias = c["prim"], c["a"], c["b"], c["alias"]
    erv, eres, bits = oracle(prim, a, b)
    cl = prim_classes(prim, a, b)
    if alias:
        cl.append("aliased")
    ctx.count(c, bool(cl), "arm-" + prim + (":" + cl[0] if cl else ""))
    for be in env:
        try:
            rv, res = be.run(prim, a, b, alias)
        except be.faults as e:
            raise Violation("%s/%s/abi-or-memory" % (be.name.split("(")[0], prim), "a=%x b=%x: %s" % (a, b, e))
        ctx.event("backend/" + be.name)
        if erv is not None:
            expect(rv == erv, "%s/%s/flag" % (be.name, prim), lambda: "a=%x b=%x alias=%r flag=%r expected=%r" % (a, b, alias, rv, erv))
        expect(res == eres, "%s/%s/value" % (be.name, prim), lambda: "a=%x b=%x alias=%r got=%x expected=%x" % (a, b, alias, res, eres))


from ..runner import Violation  # noqa: E402

SUBCHECKS.append(Sub("arm", prim_cases(), check_arm, 16000, 250000, ("arm",), ("arm",), setup=arm_backends))


# ---- API transcripts: keys, ciphertexts, signatures and hashes are identical whichever back end is used -------
def transcript_env(cfg):
    from .. import lib as libmod
    return [("asm", libmod.get("asm")), ("asm:base", libmod.get("asm", "base")), ("p64", libmod.get("p64")), ("p32", libmod.get("p32")),
            ("glue-a64", libmod.get("glue-a64")), ("glue-v6m", libmod.get("glue-v6m")), ("p64-O0", libmod.get("p64-O0"))]


def transcript_cases():
    from . import c19
    return c19.scheme_cases()


def check_transcript(ctx, env, c):
    from . import c19, c16
    ctx.count(c, True, "transcript")
    ref_name, ref = None, None
    for name, lib in env:
        t = c19._run_history(ctx, lib, c["h"], c["msg"], c["comp"], False)
        q = c["lq"]
        case = {"hash": q["hash"], "s": 0, "via": "setup", "t": 1, "z": (1, 0), "len": q["len"], "stream": q["stream"], "seed": q["seed"], "neg": "none",
                "hash2": 0, "s2": 0, "full": False, "cpp": False}
        c16.check(c19._Null(), lib, case)
        t.append(lib.hash_last())
        ctx.event("backend/" + name)
        if ref is None:
            ref_name, ref = name, t
            continue
        expect(len(t) == len(ref), "transcript/%s/length" % name, "transcripts differ in length")
        for i, (a, b) in enumerate(zip(ref, t)):
            expect(a == b, "transcript/%s-vs-%s" % (ref_name, name), lambda: "item %d of the API transcript differs between back ends (%d vs %d bytes)" % (i, len(a), len(b)))


SUBCHECKS.append(Sub("transcripts", transcript_cases(), check_transcript, 240, 3000, ("all4",), ("all4",), setup=transcript_env))
