"""C18 - Results do not depend on whether the output object aliases an input."""
import ctypes

from hypothesis import strategies as st

from .. import conv, gens
from ..lib import OPS
from ..ref import curve as C
from ..ref import fields as F
from ..ref import pairing as PR
from ..runner import Sub, expect
from . import c04, c05

RULE = ("Enumerated: every entry of shim/ops.def (C++ members, generated table) plus the irregular C++ signatures and every C API "
        "function with an output and a same-typed input, times every aliasing pattern the signature permits (out=a, out=b, out=a=b; "
        "operands declared __restrict are never aliased; the C API marks nothing so all patterns are generated for it). Sampled: "
        "operand values from the owning layer's generators (boundary integers, tower shapes, curve points in all representations incl. "
        "identities and P=Q, GT elements). Oracle (differential): the bytes and return value of the aliased call equal those of the same "
        "call with a distinct output object (whose value is tied to the reference by C02-C07). Every case is non-trivial (aliased); the "
        "evidence lists the (operation, pattern) matrix with per-cell counts.")
ASSUMPTIONS = ["the non-aliased result is the specification of the aliased call (decided against the reference by C02-C07)",
               "operands marked __restrict in the C++ signature are outside the property and never aliased"]

Q, R = F.Q, F.R_ORDER
API = "embedded_pairing_bls12_381_"


# ---- abstract operand generators by library type ---------------------------------------------
@st.composite
def v_bigint(draw, bits):
    return draw(gens.ints(bits, Q if bits == 384 else (R if bits == 256 else None)))[1]


@st.composite
def v_point(draw, g):
    kind, P = draw(c05.point(g))
    zt, z = draw(c05.zval(g))
    junk = (draw(c05.fe(g)), draw(c05.fe(g)))
    return {"P": P, "z": z, "junk": junk}


def gen_for(t):
    if t.startswith("BigInt<"):
        return v_bigint(int(t[7:-1]))
    if t == "Fq":
        return gens.canon(384, Q).map(lambda x: x[1])
    if t == "Fr":
        return gens.canon(256, R).map(lambda x: x[1])
    if t in ("Fq2", "Fq6", "Fq12"):
        return c04.elem(int(t[2:])).map(lambda x: x[1])
    if t in ("G1", "G1Affine"):
        return v_point(1)
    if t in ("G2", "G2Affine"):
        return v_point(2)
    if t == "PowersOfX":
        return st.lists(st.integers(0, -F.X - 1), min_size=4, max_size=4)
    raise KeyError(t)


def tup(x):
    return tuple(tup(y) for y in x) if isinstance(x, (list, tuple)) else x


def image(lib, t, v):
    if t.startswith("BigInt<"):
        bits = int(t[7:-1])
        return conv.bi(v, bits) + bytes(lib.sizeof(t) - bits // 8)
    if t == "Fq":
        return conv.bi(v, 384)
    if t == "Fr":
        return conv.bi(v, 256)
    if t == "Fq2":
        return conv.fq2_b(tup(v))
    if t == "Fq6":
        return conv.fq6_b(tup(v))
    if t == "Fq12":
        return conv.fq12_b(tup(v))
    if t in ("G1", "G2", "G1Affine", "G2Affine"):
        g = 1 if t.startswith("G1") else 2
        P = tup(v["P"]) if v["P"] is not None else None
        z, junk = tup(v["z"]), tup(v["junk"])
        if t.endswith("Affine"):
            return c05.aff_b(lib, g, P, junk)
        return c05.proj_b(g, P, z, junk)
    if t == "PowersOfX":
        return conv.px_pack(lib, v)
    raise KeyError(t)


def meaningful(lib, t, b):
    """The bytes of an image that carry value (padding excluded)."""
    if t in ("G1Affine", "G2Affine"):
        g = 1 if t == "G1Affine" else 2
        n = 96 * g
        return b[:n] + b[lib.inf_off[g]:lib.inf_off[g] + 1]
    if t.startswith("BigInt<"):
        return b[:int(t[7:-1]) // 8]
    return b


# ---- table operations -------------------------------------------------------------------------
def patterns(lib_sizes, o):
    """Aliasing patterns permitted for a table operation."""
    ps = []
    same_a = o.a_t == o.out_t or (lib_sizes(o.a_t) == lib_sizes(o.out_t) and {o.a_t, o.out_t} in ({"Fq", "BigInt<384>"}, {"Fr", "BigInt<256>"}))
    if not o.a_restrict and same_a:
        ps.append("a")
    if o.b_t and not o.b_restrict and o.b_t == o.out_t:
        ps.append("b")
        if not o.a_restrict and o.a_t == o.out_t:
            ps.append("ab")
    return ps


# gt_* style operations are only specified on GT / cyclotomic inputs
GT_ONLY = {"fq12_exp_gt_div", "fq12_exp_gt_nodiv", "fq12_exp_gt", "fq12_exp_gt_px", "fq12_sqr_cyc"}
SUBGROUP_ONLY = {"g1_mul", "g1_mul_affine", "g1_mul_endo", "g2_mul", "g2_mul_affine", "g2_mul_frob", "g2_mul_frob_px"}
FROB = c04.FROB_POWERS


def _table_cells():
    from .. import lib as libmod
    sizes = {"Fq": 48, "BigInt<384>": 48, "Fr": 32, "BigInt<256>": 32}
    cells = []
    for name, o in OPS.items():
        for p in patterns(lambda t: sizes.get(t, t), o):
            cells.append((name, p))
    return cells


TABLE_CELLS = _table_cells()


@st.composite
def table_cases(draw):
    name, pat = draw(st.sampled_from(TABLE_CELLS))
    o = OPS[name]
    c = {"op": name, "pat": pat}
    if name in GT_ONLY:
        c["a"] = {"gt": draw(gens.scalars(256))[1]}
    elif name in SUBGROUP_ONLY:
        g = 1 if name.startswith("g1") else 2
        zt, z = draw(c05.zval(g))
        c["a"] = {"P": C.gen_mul(g, draw(st.integers(0, R - 1))), "z": z, "junk": (KKzero(g), KKone(g))}
    else:
        c["a"] = draw(gen_for(o.a_t))
    if o.b_t:
        c["b"] = c["a"] if pat == "ab" else draw(gen_for(o.b_t))
    if o.has_arg:
        if name == "g2_frob":
            c["arg"] = draw(st.sampled_from((0, 1, 4, 5, 2**32 - 4, 2**32 - 3)))   # powers 2,3 (mod 4) are unimplemented (TODO in the source)
        else:
            c["arg"] = draw(st.sampled_from(FROB)) if "frob" in name else draw(st.integers(0, int(o.out_t[7:-1]) - 1))
    return c


def KKzero(g):
    return c05.KK(g).zero


def KKone(g):
    return c05.KK(g).one


def a_image(lib, o, v):
    if isinstance(v, dict) and "gt" in v:
        return conv.fq12_b(F.flat_to_tower(PR.gt_pow_gen(v["gt"])))
    return image(lib, o.a_t, v)


def check_table(ctx, lib, c):
    name, pat = c["op"], c["pat"]
    o = OPS[name]
    A = a_image(lib, o, c["a"])
    Bv = None
    if o.b_t:
        Bv = A if pat == "ab" else image(lib, o.b_t, c["b"])
    arg = c.get("arg", 0)
    rv0, out0 = lib.op(name, A, Bv, arg)
    rv1, out1 = lib.op(name, A, Bv, arg, alias=pat)
    out0, out1 = meaningful(lib, o.out_t, out0), meaningful(lib, o.out_t, out1)
    ctx.count(c, True, "%s|out=%s" % (name, pat))
    expect(out0 == out1 and rv0 == rv1, "%s/out=%s" % (name, pat),
           lambda: "aliased result differs: case=%r\n  distinct: rv=%d %s\n  aliased:  rv=%d %s" % (c, rv0, out0.hex(), rv1, out1.hex()))


# ---- irregular C++ signatures -----------------------------------------------------------------
IRREG = ("fq_exp", "fr_exp", "fq2_exp", "fq12_exp", "fr_inv", "fq6_mul_c01", "fq12_mul_c014", "endo_parts", "wnaf_mul", "doubleadd",
         "g1_mul_128", "g2_mul_512", "final_exp", "fq_into_mont", "random_gt", "fq12_exp_cyc")


@st.composite
def irreg_cases(draw):
    op = draw(st.sampled_from(IRREG))
    c = {"op": op}
    if op in ("fq_exp", "fr_exp", "fq2_exp", "fq12_exp"):
        t = {"fq_exp": "Fq", "fr_exp": "Fr", "fq2_exp": "Fq2", "fq12_exp": "Fq12"}[op]
        c["a"] = draw(gen_for(t))
        c["w"] = draw(st.sampled_from((64, 256)))
        c["e"] = draw(gens.ints(c["w"]))[1]
        if op == "fq12_exp":
            c["e"] >>= max(0, c["e"].bit_length() - 64)
    elif op == "fr_inv":
        c["a"] = draw(gen_for("Fr"))
    elif op in ("fq6_mul_c01", "fq12_mul_c014"):
        c["a"] = draw(gen_for("Fq6" if op == "fq6_mul_c01" else "Fq12"))
        c["cs"] = [draw(gen_for("Fq2")) for _ in range(3)]
    elif op == "endo_parts":
        c["a"] = {"P": C.gen_mul(1, draw(st.integers(0, R - 1))), "z": draw(c05.zval(1))[1], "junk": (0, 1)}
        c["c0"] = draw(gens.ints(256))[1] >> 128
        c["c1"] = draw(gens.ints(256))[1] >> 128
        c["n0"], c["n1"] = draw(st.booleans()), draw(st.booleans())
    elif op in ("wnaf_mul", "doubleadd"):
        g = draw(st.sampled_from((1, 2)))
        c["g"] = g
        c["a"] = draw(v_point(g))
        c["bits"] = draw(st.sampled_from((64, 128, 256)))
        c["k"] = draw(gens.scalars(c["bits"]))[1]
        c["w"] = 4 if c["bits"] != 64 else 2
        c["mode"] = draw(st.integers(0, 2))
    elif op == "g1_mul_128":
        c["a"] = draw(v_point(1))
        c["k"] = draw(gens.scalars(128))[1]
    elif op == "g2_mul_512":
        c["a"] = draw(v_point(2))
        c["k"] = draw(gens.scalars(512))[1] >> draw(st.sampled_from((0, 256, 384)))
    elif op == "final_exp":
        c["a"] = draw(gen_for("Fq12"))
    elif op == "fq_into_mont":
        c["a"] = draw(gen_for("Fq"))
    elif op in ("random_gt", "fq12_exp_cyc"):
        c["t"] = draw(gens.scalars(256))[1]
        c["stream"] = draw(st.binary(min_size=0, max_size=48))
        c["e"] = draw(gens.scalars(256))[1]
    return c


def _call2(lib, fname, out_size, build_args, alias_block):
    """Runs fname twice: output in O, then output aliased to the block holding operand a."""
    f = getattr(lib.dll, fname)
    f.restype = None
    lib.O.fill(0xCD, out_size)
    f(*build_args(lib.O.ptr))
    out0 = lib.O.read(out_size)
    f(*build_args(alias_block.ptr))
    out1 = alias_block.read(out_size)
    return out0, out1


def check_irreg(ctx, lib, c):
    op = c["op"]
    L = ctypes.c_long
    if op in ("fq_exp", "fr_exp", "fq2_exp", "fq12_exp"):
        t = {"fq_exp": "Fq", "fr_exp": "Fr", "fq2_exp": "Fq2", "fq12_exp": "Fq12"}[op]
        sz = lib.sizeof(t)
        w = c["w"]
        def run(alias):
            lib.A.write(image(lib, t, c["a"]))
            lib.B.write(conv.bi(c["e"], w))
            return _one(lib, "vf_" + op, sz, lambda o: (w, o, lib.A.ptr, lib.B.ptr), alias)
        out0, out1 = run(False), run(True)
    elif op == "fr_inv":
        def run(alias):
            lib.A.write(image(lib, "Fr", c["a"]))
            return _one(lib, "vf_fr_misc", 32, lambda o: (10, o, lib.A.ptr, None), alias)
        out0, out1 = run(False), run(True)
    elif op in ("fq6_mul_c01", "fq12_mul_c014"):
        t = "Fq6" if op == "fq6_mul_c01" else "Fq12"
        sz = lib.sizeof(t)
        n = 2 if op == "fq6_mul_c01" else 3
        def run(alias):
            lib.A.write(image(lib, t, c["a"]))
            for blk, v in zip((lib.B, lib.C, lib.D), c["cs"][:n]):
                blk.write(image(lib, "Fq2", v))
            extra = (lib.B.ptr, lib.C.ptr) if n == 2 else (lib.B.ptr, lib.C.ptr, lib.D.ptr)
            return _one(lib, "vf_" + op, sz, lambda o: (o, lib.A.ptr) + extra, alias)
        out0, out1 = run(False), run(True)
    elif op == "endo_parts":
        def run(alias):
            lib.A.write(image(lib, "G1", c["a"]))
            lib.B.write(conv.bi(c["c0"], 256))
            lib.C.write(conv.bi(c["c1"], 256))
            return _one(lib, "vf_g1_mul_endo_parts", 144, lambda o: (o, lib.A.ptr, lib.B.ptr, int(c["n0"]), lib.C.ptr, int(c["n1"])), alias)
        out0, out1 = run(False), run(True)
    elif op in ("wnaf_mul", "doubleadd"):
        g, bits = c["g"], c["bits"]
        t = "G%d" % g
        sz = lib.sizeof(t)
        def run(alias):
            lib.A.write(image(lib, t, c["a"]))
            lib.B.write(conv.bi(c["k"], bits))
            if op == "wnaf_mul":
                return _one(lib, "vf_wnaf_mul", sz, lambda o: (g, bits, c["w"], o, lib.A.ptr, 0, lib.B.ptr, c["mode"]), alias)
            return _one(lib, "vf_doubleadd", sz, lambda o: (g, bits, o, lib.A.ptr, 0, lib.B.ptr), alias)
        out0, out1 = run(False), run(True)
    elif op in ("g1_mul_128", "g2_mul_512"):
        t = "G1" if op == "g1_mul_128" else "G2"
        bits = 128 if op == "g1_mul_128" else 512
        sz = lib.sizeof(t)
        def run(alias):
            lib.A.write(image(lib, t, c["a"]))
            lib.B.write(conv.bi(c["k"], bits))
            return _one(lib, "vf_" + op, sz, lambda o: (o, lib.A.ptr, 0, lib.B.ptr), alias)
        out0, out1 = run(False), run(True)
    elif op == "final_exp":
        def run(alias):
            lib.A.write(image(lib, "Fq12", c["a"]))
            return _one(lib, "vf_final_exp", 576, lambda o: (o, lib.A.ptr), alias)
        out0, out1 = run(False), run(True)
    elif op == "fq_into_mont":
        # in-place by definition; compare with set() on a distinct object
        a = c["a"]
        rv, out0 = lib.op("fq_set", conv.bi(a, 384))
        lib.O.write(conv.bi(a, 384))
        lib.fn("vf_fq_misc")(8, lib.O.ptr, None, None)
        out1 = lib.O.read(48)
    elif op == "random_gt":
        base = conv.fq12_b(F.flat_to_tower(PR.gt_pow_gen(c["t"])))
        def run(alias):
            lib.A.write(base)
            lib.set_random(c["stream"], 7)
            out = _one(lib, "vf_fq12_random_gt", 576, lambda o: (o, lib.B.ptr, lib.A.ptr), alias)
            return out + lib.B.read(32)
        out0, out1 = run(False), run(True)
    else:  # fq12_exp_cyc: the restrict variant is not aliasable; use exponentiate_gt_nodiv via table instead
        base = conv.fq12_b(F.flat_to_tower(PR.gt_pow_gen(c["t"])))
        rv, out0 = lib.op("fq12_exp_gt_nodiv", base, conv.bi(c["e"], 256))
        rv, out1 = lib.op("fq12_exp_gt_nodiv", base, conv.bi(c["e"], 256), alias="a")
    ctx.count(c, True, "%s|out=a" % op)
    expect(out0 == out1, "%s/out=a" % op, lambda: "aliased result differs: case=%r\n  distinct: %s\n  aliased:  %s" % (c, out0.hex(), out1.hex()))


def _one(lib, fname, out_size, build_args, alias):
    f = getattr(lib.dll, fname)
    f.restype = None
    if not alias:
        lib.O.fill(0xCD, out_size)
        f(*build_args(lib.O.ptr))
        return lib.O.read(out_size)
    f(*build_args(lib.A.ptr))
    return lib.A.read(out_size)


# ---- C API ------------------------------------------------------------------------------------
# (symbol, out type, [(operand type, may be aliased)], precondition)
CAPI = [
    ("g1_add", "G1", ["G1", "G1"], None), ("g2_add", "G2", ["G2", "G2"], None),
    ("g1_add_mixed", "G1", ["G1", "G1Affine"], None), ("g2_add_mixed", "G2", ["G2", "G2Affine"], None),
    ("g1_negate", "G1", ["G1"], None), ("g2_negate", "G2", ["G2"], None),
    ("g1_double", "G1", ["G1"], None), ("g2_double", "G2", ["G2"], None),
    ("g1_multiply", "G1", ["G1", "BigInt<256>"], "sub"), ("g2_multiply", "G2", ["G2", "BigInt<256>"], "sub"),
    ("g1affine_negate", "G1Affine", ["G1Affine"], None), ("g2affine_negate", "G2Affine", ["G2Affine"], None),
    ("gt_add", "Fq12", ["Fq12", "Fq12"], "gt"), ("gt_negate", "Fq12", ["Fq12"], "gt"), ("gt_double", "Fq12", ["Fq12"], "gt"),
    ("gt_multiply", "Fq12", ["Fq12", "BigInt<256>"], "gt"),
]


def capi_cells():
    cells = []
    for i, (name, out_t, ins, pre) in enumerate(CAPI):
        if ins[0] == out_t:
            cells.append((i, "a"))
        if len(ins) > 1 and ins[1] == out_t:
            cells.append((i, "b"))
            if ins[0] == out_t:
                cells.append((i, "ab"))
    return cells


CAPI_CELLS = capi_cells()


@st.composite
def capi_cases(draw):
    i, pat = draw(st.sampled_from(CAPI_CELLS))
    name, out_t, ins, pre = CAPI[i]
    vals = []
    for t in ins:
        if pre == "gt" and t == "Fq12":
            vals.append({"gt": draw(gens.scalars(256))[1]})
        elif pre == "sub" and t in ("G1", "G2"):
            g = 1 if t == "G1" else 2
            vals.append({"P": C.gen_mul(g, draw(st.integers(0, R - 1))), "z": draw(c05.zval(g))[1], "junk": (KKzero(g), KKone(g))})
        elif t == "BigInt<256>":
            vals.append(draw(gens.scalars(256))[1])
        else:
            vals.append(draw(gen_for(t)))
    if pat == "ab":
        vals[1] = vals[0]
    return {"i": i, "pat": pat, "vals": vals}


def check_capi(ctx, lib, c):
    name, out_t, ins, pre = CAPI[c["i"]]
    pat = c["pat"]
    imgs = []
    for t, v in zip(ins, c["vals"]):
        if isinstance(v, dict) and "gt" in v:
            imgs.append(conv.fq12_b(F.flat_to_tower(PR.gt_pow_gen(v["gt"]))))
        else:
            imgs.append(image(lib, t, v))
    f = getattr(lib.dll, API + name)
    f.restype = None
    osz = lib.sizeof(out_t)
    blocks = [lib.A, lib.B]

    def run(alias):
        for blk, img in zip(blocks, imgs):
            blk.write(img)
        ptrs = [blocks[j].ptr for j in range(len(imgs))]
        if alias == "ab":
            ptrs = [lib.A.ptr, lib.A.ptr]
        if alias is None:
            lib.O.fill(0xCD, osz)
            f(lib.O.ptr, *ptrs)
            return lib.O.read(osz)
        dst = lib.B if alias == "b" else lib.A
        f(dst.ptr, *ptrs)
        return dst.read(osz)
    out0 = meaningful(lib, out_t, run(None))
    out1 = meaningful(lib, out_t, run(pat))
    ctx.count(c, True, "capi:%s|out=%s" % (name, pat))
    expect(out0 == out1, "capi/%s/out=%s" % (name, pat), lambda: "aliased result differs: case=%r\n  distinct: %s\n  aliased:  %s" % (c, out0.hex(), out1.hex()))


# ---- byte-buffer inputs that overlap the output object (hash-to-curve, identity derivation) -------------------------------
HASH_OPS = ("g1affine_from_hash", "g2affine_from_hash", "lqibe_compute_id_from_hash")
# get_point_from_x takes a field element by const reference without __restrict; Encoding::decode passes the result's own x member.
# Patterns: the argument is the x member / the y member of the object that receives the point.
MEMBER_OPS = ("g1_point_from_x|x=out.x", "g1_point_from_x|x=out.y", "g2_point_from_x|x=out.x", "g2_point_from_x|x=out.y")
# multiply_doubleadd copies its base before the first write "where the algorithm needs the old value" (the property's third
# mechanism), for affine bases too: an affine base kept in the storage that receives the projective result (a caller's union).
OVERLAY_OPS = ("g1_doubleadd|base=out", "g2_doubleadd|base=out")
# LQ-IBE decrypt writes the symmetric key into a caller's byte buffer after it has read its three inputs: the buffer may be the storage
# of one of them (the ciphertext is no longer needed once the key is derived).
LQ_OVERLAY_OPS = ("lqibe_decrypt|key=ct", "lqibe_decrypt|key=sk", "lqibe_decrypt|key=id")


@st.composite
def hash_alias_cases(draw):
    op = draw(st.sampled_from(HASH_OPS + MEMBER_OPS + OVERLAY_OPS + LQ_OVERLAY_OPS))
    n = 96 if op.startswith("g2") else 48
    from . import c05, c10
    if op in LQ_OVERLAY_OPS:
        return {"op": op, "h": draw(c10.hash_int(48, F.Q)), "stream": draw(st.binary(min_size=0, max_size=48)), "seed": draw(st.integers(0, 2**32)),
                "len": draw(st.sampled_from((1, 16, 32, 64))), "cpp": draw(st.booleans())}
    if op in OVERLAY_OPS:
        g = int(op[1])
        kp, P = draw(c05.point(g))
        bits = draw(st.sampled_from((64, 128, 256, 512)))
        return {"op": op, "P": P, "bits": bits, "k": draw(gens.ints(bits))[1]}
    if op in MEMBER_OPS:
        g = int(op[1])
        if draw(st.booleans()):
            kp, P = draw(c05.point(g))
            x = P[0] if P is not None else draw(c05.fe(g))
        else:
            x = draw(c05.fe(g))
        return {"op": op, "x": x, "greater": draw(st.booleans()), "checked": draw(st.booleans())}
    return {"op": op, "h": draw(c10.hash_int(n, F.Q))}


def check_hash_alias(ctx, lib, c):
    import ctypes
    op = c["op"]
    if op in LQ_OVERLAY_OPS:
        d = lib.dll
        for nm in ("vf_lq_setup", "vf_lq_id", "vf_lq_keygen", "vf_lq_encrypt", "vf_lq_decrypt"):
            getattr(d, nm).restype = None
        g1a, g2a, g2sz = lib.sizeof("G1Affine"), lib.sizeof("G2Affine"), lib.sizeof("G2")
        sizes = {"params": 2 * g2sz, "msk": 32, "id": g1a, "sk": g1a, "ct": g2a, "hash": 48, "sym1": 96, "sym2": 96, "over": max(g1a, g2a) + 64}
        raw = {k: ctypes.create_string_buffer(sz + 64) for k, sz in sizes.items()}
        P = {k: ctypes.c_void_p((ctypes.addressof(v) + 63) & ~63) for k, v in raw.items()}
        n = c["len"]
        d.vf_set_use_cpp(1 if c["cpp"] else 0)
        try:
            lib.set_random(c["stream"], c["seed"])
            d.vf_lq_setup(P["params"], P["msk"])
            ctypes.memmove(P["hash"], c["h"].to_bytes(48, "big"), 48)
            d.vf_lq_id(P["id"], P["hash"])
            d.vf_lq_keygen(P["sk"], P["msk"], P["id"])
            d.vf_lq_encrypt(P["ct"], P["sym1"], ctypes.c_size_t(n), P["params"], P["id"])
            d.vf_lq_decrypt(P["sym2"], ctypes.c_size_t(n), P["ct"], P["sk"], P["id"])
            ref = ctypes.string_at(P["sym2"], n)
            which = op.split("=")[1]
            ctypes.memset(P["over"], 0xCD, sizes["over"])
            ctypes.memmove(P["over"], P[which], sizes[which])
            args = {"ct": P["ct"], "sk": P["sk"], "id": P["id"]}
            args[which] = P["over"]
            d.vf_lq_decrypt(P["over"], ctypes.c_size_t(n), args["ct"], args["sk"], args["id"])
            got = ctypes.string_at(P["over"], n)
        finally:
            d.vf_set_use_cpp(0)
        ctx.count(c, True, "overlay:%s" % op)
        expect(ctypes.string_at(P["sym1"], n) == ref, "harness/lqibe-roundtrip", "decrypt does not reproduce the key of encrypt (C16 decides that)")
        expect(got == ref, "overlay/%s" % op, lambda: "hash=%x len=%d: the key differs when the key buffer is the storage of the %s" % (c["h"], n, which))
        return
    if op in OVERLAY_OPS:
        g = int(op[1])
        P = c["P"]
        if P is not None:
            P = tuple(P) if g == 1 else tuple(tuple(x) for x in P)
        junk = (1, 2) if g == 1 else ((1, 2), (3, 4))
        Pa = c05.aff_b(lib, g, P, junk)
        K = conv.bi(c["k"], c["bits"])
        psz = lib.sizeof("G%d" % g)
        f = lib.fn("vf_doubleadd")
        lib.A.write_operand(Pa)
        lib.B.write_operand(K)
        lib.O.arm(psz)
        f(g, c["bits"], lib.O.ptr, lib.A.ptr, 1, lib.B.ptr)
        lib.O.check_guard(op, psz)
        out0 = c05.b_proj(g, lib.O.read(psz))
        lib.C.fill(0xCD, psz)
        img = bytearray(lib.C.read(psz))
        img[:len(Pa)] = Pa
        lib.C.write(bytes(img))
        f(g, c["bits"], lib.C.ptr, lib.C.ptr, 1, lib.B.ptr)
        out1 = c05.b_proj(g, lib.C.read(psz))
        ctx.count(c, True, "overlay:%s" % op)
        expect(out0 == out1, "overlay/%s" % op, lambda: "P=%r k=%x (%d bits): result differs when the affine base lies in the storage that receives the result" % (P, c["k"], c["bits"]))
        return
    if op in MEMBER_OPS:
        g = int(op[1])
        x = c["x"] if g == 1 else tuple(c["x"])
        X = conv.fq_b(x) if g == 1 else conv.fq2_b(x)
        out_t = "G%dAffine" % g
        osz = lib.sizeof(out_t)
        f = lib.fn("vf_g_point_from_x")
        lib.A.write_operand(X)
        lib.O.arm(osz)
        rv0 = f(g, lib.O.ptr, lib.A.ptr, int(c["greater"]), int(c["checked"]))
        lib.O.check_guard(op, osz)
        out0 = meaningful(lib, out_t, lib.O.read(osz))
        off = 0 if op.endswith("out.x") else 48 * g
        lib.B.fill(0xCD, osz)
        img = bytearray(lib.B.read(osz))
        img[off:off + len(X)] = X
        lib.B.write(bytes(img))
        rv1 = f(g, lib.B.ptr, ctypes.c_void_p(lib.B.addr + off), int(c["greater"]), int(c["checked"]))
        out1 = meaningful(lib, out_t, lib.B.read(osz))
        ctx.count(c, True, "member:%s" % op + (":found" if rv0 else ":none"))
        expect(bool(rv0) == bool(rv1), "member/%s/return" % op, lambda: "x=%r: returns %d with a separate argument, %d with the member" % (x, rv0, rv1))
        if rv0:
            expect(out0 == out1, "member/%s" % op, lambda: "x=%r greater=%r: result differs when the argument is a member of the receiving object" % (x, c["greater"]))
        return
    n = 96 if op.startswith("g2") else 48
    data = c["h"].to_bytes(n, "big")
    f = getattr(lib.dll, ("embedded_pairing_" + op) if op.startswith("lqibe") else (API + op))
    f.restype = None
    osz = lib.sizeof("G2Affine" if op.startswith("g2") else "G1Affine")
    out_t = "G2Affine" if op.startswith("g2") else "G1Affine"
    lib.A.write_operand(data)
    lib.O.arm(osz)
    f(lib.O.ptr, lib.A.ptr)
    lib.O.check_guard(op, osz)
    out0 = meaningful(lib, out_t, lib.O.read(osz))
    # the hash bytes sit at the start of the object that receives the result
    lib.B.fill(0xCD, osz)
    lib.B.write(data)
    f(lib.B.ptr, lib.B.ptr)
    out1 = meaningful(lib, out_t, lib.B.read(osz))
    ctx.count(c, True, "capi:%s|out=a" % op)
    expect(out0 == out1, "capi/%s/out=a" % op, lambda: "result differs when the hash bytes are read from the output object: hash=%s" % data.hex())


def prebuild(tier):
    PR.gt_pow_gen(3)
    C.gen_mul(1, 3)
    C.gen_mul(2, 3)


def finish(evidence, agg):
    cells = {k.replace(":found", "").replace(":none", ""): v for k, v in agg["classes"].items() if "|out=" in k or "|x=out" in k or "|base=out" in k or "|key=" in k}
    evidence["coverage"]["cells"] = len(cells)
    evidence["coverage"]["min_cell_count"] = min(cells.values()) if cells else 0
    want = len(TABLE_CELLS) + len(IRREG) + len(CAPI_CELLS) + len(HASH_OPS) + len(MEMBER_OPS) + len(OVERLAY_OPS) + len(LQ_OVERLAY_OPS)
    evidence["coverage"]["cells_expected"] = want
    evidence["coverage"]["exhaustive"] = False


SUBCHECKS = [
    # p64-O0: an aliased operand that ends up in a __restrict position only misbehaves when the compiler does not keep the old limb in a register
    Sub("table", table_cases(), check_table, 24000, 300000, ("asm",), ("asm", "p64", "p32", "p64-O0")),
    Sub("irregular", irreg_cases(), check_irreg, 4000, 50000, ("asm",), ("asm", "p64", "p32", "p64-O0")),
    Sub("hash_alias", hash_alias_cases(), check_hash_alias, 1500, 20000, ("asm",), ("asm", "p32")),
    Sub("capi", capi_cases(), check_capi, 6000, 70000, ("asm",), ("asm", "p64", "p32")),
]
