"""C01 - Pairing is the BLS12-381 optimal-ate pairing: bilinear, non-degenerate, order r."""
import ctypes

from hypothesis import strategies as st

from .. import conv, gens
from ..ref import curve as C
from ..ref import fields as F
from ..ref import pairing as PR
from ..runner import Sub, expect
from . import c05

RULE = ("Generated: scalar pairs (a,b) from the boundary mixture relative to r (0, 1, r-1, r, r+1, multiples of r, 2^256-d, runs, "
        "uniform); P=[a]g1 and Q=[b]g2 are computed by the REFERENCE and handed to the library as affine structs, or as Jacobian points "
        "with a drawn z that the library converts itself; identity operands arise from a or b = 0 mod r and are also given with arbitrary "
        "coordinates. Oracles: (1) the reference pairing of the published generators equals the exported gt_generator; (2) every "
        "case: e_lib(P,Q) == GTref^(ab mod r) where GTref comes from the from-scratch reference pairing (bilinearity of the true "
        "pairing makes this an exact-value oracle); (3) on a drawn subset the full reference Miller loop + final exponentiation on (P,Q) "
        "itself. Non-trivial = ab != 0 mod r and not a=b=1, or an identity operand, or a non-normalised input, or a scalar >= r.")
ASSUMPTIONS = ["reference pairing (vf/ref/pairing.py): affine Miller loop over |x|, final exponent 3(q^12-1)/r, inverse for negative x; self-tested for order r and bilinearity without the library",
               "point conversions of the library are decided by C05"]

R = F.R_ORDER
API = "embedded_pairing_bls12_381_"


@st.composite
def cases(draw):
    ta, a = draw(gens.scalars(256))
    tb, b = draw(gens.scalars(256))
    how = draw(st.integers(0, 9))
    if how == 0:
        a = draw(st.sampled_from((0, R, 2 * R)))
    elif how == 1:
        b = draw(st.sampled_from((0, R, 2 * R)))
    elif how == 2:
        a, b = draw(st.sampled_from(((1, 1), (1, 2), (2, 1), (R - 1, 1), (1, R - 1), (R - 1, R - 1), (2, (R + 1) // 2))))
    repP = draw(st.sampled_from(("affine", "affine", "jac")))
    repQ = draw(st.sampled_from(("affine", "affine", "jac")))
    zP = draw(c05.zval(1))[1]
    zQ = draw(c05.zval(2))[1]
    junk1 = (draw(c05.fe(1)), draw(c05.fe(1)))
    junk2 = (draw(c05.fe(2)), draw(c05.fe(2)))
    route = draw(st.sampled_from(("capi", "capi", "split", "cpp", "prepared")))
    full = draw(st.integers(0, 7)) == 0
    return {"a": a, "b": b, "ta": ta, "tb": tb, "repP": repP, "repQ": repQ, "zP": zP, "zQ": zQ, "j1": junk1, "j2": junk2, "route": route, "full": full}


def lib_affine(lib, g, P, rep, z, junk):
    """Affine image of reference point P as the library itself would hold it."""
    if rep == "affine":
        return c05.aff_b(lib, g, P, junk)
    img = c05.proj_b(g, P, z, junk)
    rv, out = c05.capi(lib, "g%daffine_from_projective" % g, lib.sizeof("G%dAffine" % g), img)
    return out


def lib_pairing(lib, PA, QA, route):
    lib.A.write(PA)
    lib.B.write(QA)
    lib.O.fill(0xCD, 576)
    if route == "capi":
        f = getattr(lib.dll, API + "pairing")
        f.restype = None
        f(lib.O.ptr, lib.A.ptr, lib.B.ptr)
    elif route == "cpp":
        lib.fn("vf_pairing_cpp", None)(lib.O.ptr, lib.A.ptr, lib.B.ptr, 0)
    elif route == "split":
        lib.fn("vf_miller_loop", None)(lib.C.ptr, lib.A.ptr, lib.B.ptr, 0)
        lib.fn("vf_final_exp", None)(lib.O.ptr, lib.C.ptr)
    else:
        f = getattr(lib.dll, API + "g2prepared_prepare")
        f.restype = None
        f(lib.D.ptr, lib.B.ptr)
        g = getattr(lib.dll, API + "prepared_pairing")
        g.restype = None
        g(lib.O.ptr, lib.A.ptr, lib.D.ptr)
    return lib.O.read(576)


def check(ctx, lib, c):
    a, b = c["a"], c["b"]
    P = C.gen_mul(1, a)
    Qp = C.gen_mul(2, b)
    zQ = tuple(c["zQ"])
    j1 = tuple(c["j1"])
    j2 = tuple(tuple(x) for x in c["j2"])
    PA = lib_affine(lib, 1, P, c["repP"], c["zP"], j1)
    QA = lib_affine(lib, 2, Qp, c["repQ"], zQ, j2)
    out = lib_pairing(lib, PA, QA, c["route"])
    got = F.tower_to_flat(conv.b_fq12(out))
    exp = PR.gt_pow_gen(a * b)
    ident = P is None or Qp is None
    nontriv = ident or (a, b) != (1, 1) or c["repP"] == "jac" or c["repQ"] == "jac"
    cls = "pairing-%s" % c["route"] + (":identity" if ident else "") + (":k>=r" if max(a, b) >= R and not ident else "")
    ctx.count(c, nontriv, cls)
    sig = "pairing/%s" % c["route"]
    expect(all(w < F.Q for w in conv.raws(out)), sig + "/noncanonical", "non-reduced word in the pairing value")
    expect(got == exp, sig + ("/identity" if ident else "/value"), lambda: "a=%x b=%x repP=%s repQ=%s: e(P,Q) != GT^(ab)" % (a, b, c["repP"], c["repQ"]))
    expect((got == F.P_ONE) == ident, sig + "/degenerate", lambda: "a=%x b=%x" % (a, b))
    # a related second pairing through the same route directly afterwards: (P', -Q) - the second argument shares its x coordinate with
    # the one just used. The pairing is a function of its arguments; coefficients remembered from the previous call must not leak in.
    if not ident and (a ^ b) % 3 == 0:
        a2 = (a * 7 + 3) % R or 1
        P2 = C.gen_mul(1, a2)
        nQ = C.neg(Qp, C.G2Ops)
        PA2 = lib_affine(lib, 1, P2, c["repP"], c["zP"], j1)
        QA2 = lib_affine(lib, 2, nQ, c["repQ"], zQ, j2)
        got2 = F.tower_to_flat(conv.b_fq12(lib_pairing(lib, PA2, QA2, c["route"])))
        expect(got2 == PR.gt_pow_gen((-a2 * b) % R), sig + "/after-related-call", lambda: "e(P,Q) with a=%x b=%x, then e(P',-Q) with a'=%x: wrong value" % (a, b, a2))
        ctx.event("related-second-pairing")
    if c["full"] and not ident:
        ctx.event("full-reference-pairing")
        ref = PR.pairing(P, Qp)
        expect(ref == exp, "harness/reference-bilinearity", "reference pairing disagrees with its own bilinearity")
        expect(got == ref, sig + "/value-direct", lambda: "a=%x b=%x differs from the reference Miller loop + final exponentiation" % (a, b))
    # order r through the library's own generic exponentiation (not the GT fast path)
    if (a + 3 * b) % 16 == 0:      # (a function of the case, so that a replay does the same)
        rv, o2 = lib.call("vf_fq12_exp", 576, 256, "O", out, conv.bi(R, 256))
        expect(conv.b_fq12(o2) == F.FQ12_ONE, sig + "/order", lambda: "e^r != 1 for a=%x b=%x" % (a, b))


def static_checks(tier, vseed):
    from .. import lib as libmod
    lib = libmod.get("asm")
    fails = []
    gt = F.tower_to_flat(conv.b_fq12(lib.const("generator_pairing")))
    p = ctypes.c_void_p.in_dll(lib.dll, API + "gt_generator")
    exported = ctypes.string_at(p.value, 576)
    e2 = F.tower_to_flat(conv.b_fq12(exported))
    ref = PR.gt_generator()
    if gt != ref:
        fails.append(("static-generator", "asm", "generator_pairing", "generator_pairing/value", "C++ constant generator_pairing differs from the reference pairing of the published generators"))
    if e2 != ref:
        fails.append(("static-generator", "asm", "gt_generator", "gt_generator/value", "exported embedded_pairing_bls12_381_gt_generator differs from the reference pairing of the published generators"))
    return {"evaluations": 2, "classes": {"static-generator": 2}, "samples": {}, "failures": fails, "nontrivial": [b"gtgen1", b"gtgen2"]}


def prebuild(tier):
    C.self_test()
    PR.self_test()
    PR.gt_pow_gen(3)
    C.gen_mul(1, 3)
    C.gen_mul(2, 3)


SUBCHECKS = [
    Sub("pairing", cases(), check, 4000, 20000, ("asm",), ("asm", "asm:base", "p64", "p32")),
    # the same oracle on every other configuration that can be built on the host (word size, baseline asm, ARM binding layers):
    # a pairing that is right only with 64-bit words is wrong on the devices the library targets
    Sub("pairing_backends", cases(), check, 480, 4000, ("asm:base", "p64", "p32", "glue-a64", "glue-v6m", "p64-O0"), ("glue-a64", "glue-v6m", "p64-O0")),
]
