"""C05 - G1 and G2 point arithmetic is the elliptic-curve group law."""
import ctypes

from hypothesis import strategies as st

from .. import conv, gens
from ..ref import curve as C
from ..ref import fields as F
from ..runner import Sub, expect

RULE = ("Generated: (group, operation, P, Q, representation). Points are k*G (subgroup) or lifted from a drawn x (arbitrary curve "
        "point, almost surely outside the subgroup) or the identity; the relation between P and Q is drawn explicitly: independent, "
        "Q=P same representative, Q=P with another z, Q=-P, P/Q/both the identity (z=0 with arbitrary x,y; affine infinity flag with "
        "arbitrary coordinates), z=1 inputs. Oracle: affine chord-and-tangent reference with all cases written out; library outputs are "
        "normalised by the reference's own inversion. Non-trivial = the pair is in an exceptional class (anything but 'independent' "
        "with generic z). Operations go through the C API symbols and the C++ members.")
ASSUMPTIONS = ["reference group law (vf/ref/curve.py) passes its library-free self-test", "Python integers"]

Q = F.Q
API = "embedded_pairing_bls12_381_"


def KK(g):
    return C.G1Ops if g == 1 else C.G2Ops


@st.composite
def fe(draw, g, nonzero=False):
    """Base-field element of the group's field (value)."""
    def one():
        tag, v = draw(gens.canon(384, Q))
        return v
    if g == 1:
        v = one()
        if nonzero and v == 0:
            v = 1
        return v
    v = (one(), one() if draw(st.booleans()) else 0)
    if nonzero and v == (0, 0):
        v = (1, 0)
    return v


def cube_root_of_unity():
    """A primitive cube root of unity in Fq (beta^3 = 1, beta != 1), derived, not copied from the library."""
    q = F.Q
    for t in range(2, 50):
        b = pow(t, (q - 1) // 3, q)
        if b != 1:
            return b
    raise AssertionError


BETA = cube_root_of_unity()


@st.composite
def zval(draw, g):
    how = draw(st.sampled_from(("one", "one", "minus_one", "two", "random", "random", "root_of_unity") + (("one_plus_u", "pure_u") if g == 2 else ())))
    K = KK(g)
    if how == "root_of_unity":
        # z a sixth root of unity other than 1: z^2 or z^3 is 1 (or -1), so representatives (x*z^2, y*z^3, z) share words with the
        # affine coordinates although z != 1
        w = pow(BETA, draw(st.integers(1, 2)), F.Q)
        if draw(st.booleans()):
            w = F.Q - w
        return how, (w if g == 1 else (w, 0))
    if how == "one_plus_u":      # shares the real part of 1: comparisons that look at one coefficient only would take z for 1
        return how, (1, draw(fe(1, nonzero=True)))
    if how == "pure_u":
        return how, (0, draw(fe(1, nonzero=True)))
    if how == "one":
        return how, K.one
    if how == "minus_one":
        return how, K.neg(K.one)
    if how == "two":
        return how, K.small(2)
    return how, draw(fe(g, nonzero=True))


@st.composite
def point(draw, g):
    """Reference affine point with provenance tag."""
    kind = draw(st.sampled_from(("sub", "sub", "sub", "curve", "identity", "gen")))
    K = KK(g)
    if kind == "identity":
        return kind, None
    if kind == "gen":
        k = draw(st.sampled_from((1, 2, 3, F.R_ORDER - 1, F.R_ORDER - 2)))
        return kind, C.gen_mul(g, k)
    if kind == "sub":
        k = draw(gens.scalars(256))[1] % F.R_ORDER
        return kind, C.gen_mul(g, k)
    x = draw(fe(g))
    which = draw(st.integers(0, 1))
    for i in range(64):
        P = C.lift_x(x, K, which)
        if P is not None:
            return kind, P
        x = K.add(x, K.one)
    return "gen", C.gen_mul(g, 1)


OPS = ("add", "add_mixed", "dbl", "neg", "equal", "aff_equal", "from_affine", "from_projective", "aff_neg")


@st.composite
def cases(draw):
    g = draw(st.sampled_from((1, 2)))
    op = draw(st.sampled_from(OPS + ("add", "add_mixed", "equal")))
    K = KK(g)
    kp, P = draw(point(g))
    rel = draw(st.sampled_from(("indep", "same", "same_other_z", "neg", "p_id", "q_id", "both_id", "same_x", "same_y")))
    zt, zP = draw(zval(g))
    zq_t, zQ = draw(zval(g))
    if rel == "indep":
        kq, Qp = draw(point(g))
    elif rel in ("same", "same_other_z"):
        Qp = P
        if rel == "same":
            zQ = zP
    elif rel in ("neg", "same_x"):
        Qp = C.neg(P, K)
    elif rel == "same_y":
        # the other points with the same y: (beta*x, y), (beta^2*x, y) - different points that agree in one coordinate
        if P is None:
            Qp = None
        else:
            b = pow(BETA, draw(st.integers(1, 2)), F.Q)
            Qp = ((P[0] * b % F.Q) if g == 1 else (P[0][0] * b % F.Q, P[0][1] * b % F.Q), P[1])
    elif rel == "p_id":
        P = None
        kq, Qp = draw(point(g))
    elif rel == "q_id":
        Qp = None
    else:
        P = Qp = None
    # representatives related through z: (X, Y, Z) and (X, +-Y, -Z) share raw coordinate words although they are P / -P or P / P
    zrel = draw(st.sampled_from(("indep", "indep", "indep", "neg_z", "same_z")))
    if zrel == "neg_z":
        zQ = K.neg(zP)
    elif zrel == "same_z" and rel != "same":
        zQ = zP
    junkP = (draw(fe(g)), draw(fe(g)))
    junkQ = (draw(fe(g)), draw(fe(g)))
    api = draw(st.sampled_from(("c", "cpp")))
    return {"g": g, "op": op, "P": P, "Q": Qp, "zP": zP, "zQ": zQ, "rel": rel, "jP": junkP, "jQ": junkQ, "api": api, "zt": zt}


def proj_b(g, P, z, junk):
    return conv.g1_proj_b(P, z, junk) if g == 1 else conv.g2_proj_b(P, z, junk)


def aff_b(lib, g, P, junk):
    return conv.g1_aff_b(lib, P, junk) if g == 1 else conv.g2_aff_b(lib, P, junk)


def b_proj(g, b):
    return conv.b_g1_proj(b) if g == 1 else conv.b_g2_proj(b)


def b_aff(lib, g, b):
    return conv.b_g1_aff(lib, b) if g == 1 else conv.b_g2_aff(lib, b)


def canonical(img, n):
    return all(w < Q for w in conv.raws(img[:n]))


def capi(lib, name, out_size, *bufs, restype=None, same_object=False):
    """Call a C API symbol with byte images copied to aligned scratch; first arg is the output. same_object: the two inputs are
    passed as one object (same pointer twice)."""
    f = getattr(lib.dll, API + name)
    f.restype = restype
    blocks = [lib.A, lib.B, lib.C]
    args = []
    if out_size:
        lib.O.fill(0xCD, out_size)
        args.append(lib.O.ptr)
    for i, b in enumerate(bufs):
        if same_object and i == 1:
            args.append(blocks[0].ptr)
            continue
        blocks[i].write(b)
        args.append(blocks[i].ptr)
    rv = f(*args)
    return rv, lib.O.read(out_size) if out_size else b""


def check(ctx, lib, c):
    g, op, P, Qp = c["g"], c["op"], c["P"], c["Q"]
    P = tuple(P) if P is not None else None
    Qp = tuple(Qp) if Qp is not None else None
    if g == 2:
        P = tuple(tuple(x) for x in P) if P is not None else None
        Qp = tuple(tuple(x) for x in Qp) if Qp is not None else None
    zP = c["zP"] if g == 1 else tuple(c["zP"])
    zQ = c["zQ"] if g == 1 else tuple(c["zQ"])
    jP = tuple(c["jP"]) if g == 1 else tuple(tuple(x) for x in c["jP"])
    jQ = tuple(c["jQ"]) if g == 1 else tuple(tuple(x) for x in c["jQ"])
    K = KK(g)
    gs = "g%d" % g
    psz = lib.sizeof("G1" if g == 1 else "G2")
    asz = lib.sizeof("G1Affine" if g == 1 else "G2Affine")
    fsz = 48 * g
    use_c = c["api"] == "c"
    rel = c["rel"]
    nontriv = rel != "indep" or P is None or Qp is None or c["zt"] in ("one", "minus_one")
    cls = "%s-%s:%s" % (gs, op, rel)
    PA, QA = proj_b(g, P, zP, jP), proj_b(g, Qp, zQ, jQ)
    sig = "%s_%s/%s" % (gs, op, "capi" if use_c else "cpp")

    def related():
        """The same operation directly afterwards on related first arguments: -P with the same z (same x, same denominator,
        another point), P with the other z, and for G2 a z that shares one coefficient with the first. The operations are functions
        of their arguments; nothing remembered from the previous call (denominators, inverses, slopes) may leak in."""
        if op not in ("add", "add_mixed", "dbl", "neg", "from_projective") or P is None:
            return
        nP = C.neg(P, K)
        variants = [("negated, same z", nP, zP), ("same point, other z", P, zQ)]
        if g == 2 and zP[0] != zQ[0] and zQ[1]:
            variants.append(("other point, z sharing its first coefficient", nP, (zP[0], zQ[1])))
        for what, Pt, zt in variants:
            A1 = proj_b(g, Pt, zt, jP)
            if op == "add":
                nc, ncpp, args, size, e1 = gs + "_add", gs + "_add", (A1, QA), psz, C.add(Pt, Qp, K)
            elif op == "add_mixed":
                nc, ncpp, args, size, e1 = gs + "_add_mixed", gs + "_add_mixed", (A1, aff_b(lib, g, Qp, jQ)), psz, C.add(Pt, Qp, K)
            elif op == "dbl":
                nc, ncpp, args, size, e1 = gs + "_double", gs + "_dbl", (A1,), psz, C.add(Pt, Pt, K)
            elif op == "neg":
                nc, ncpp, args, size, e1 = gs + "_negate", gs + "_neg", (A1,), psz, C.neg(Pt, K)
            else:
                nc, ncpp, args, size, e1 = gs + "affine_from_projective", gs + "a_from_proj", (A1,), asz, Pt
            o1 = capi(lib, nc, size, *args)[1] if use_c else lib.op(ncpp, *args)[1]
            g1 = b_aff(lib, g, o1) if op == "from_projective" else b_proj(g, o1)
            expect(g1 == e1, sig + "/after-related-call", lambda: "P=%r zP=%r Q=%r, then the same call with %s (z=%r): got %r expected %r" % (P, zP, Qp, what, zt, g1, e1))
        ctx.event("related-follow-up")

    # two operands with identical bytes are, on half of those cases, one object passed twice (p.add(q, q), equal(q, q))
    same_object = PA == QA and op in ("add", "equal") and bool(PA[5] & 1)
    if same_object:
        cls += ":same-object"
    if op == "add":
        exp = C.add(P, Qp, K)
        if use_c:
            rv, out = capi(lib, gs + "_add", psz, PA, QA, same_object=same_object)
        else:
            rv, out = lib.op(gs + "_add", PA, QA, alias="b=a" if same_object else None)
        got = b_proj(g, out)
    elif op == "add_mixed":
        exp = C.add(P, Qp, K)
        QAf = aff_b(lib, g, Qp, jQ)
        if use_c:
            rv, out = capi(lib, gs + "_add_mixed", psz, PA, QAf)
        else:
            rv, out = lib.op(gs + "_add_mixed", PA, QAf)
        got = b_proj(g, out)
    elif op == "dbl":
        exp = C.add(P, P, K)
        if use_c:
            rv, out = capi(lib, gs + "_double", psz, PA)
        else:
            rv, out = lib.op(gs + "_dbl", PA)
        got = b_proj(g, out)
    elif op == "neg":
        exp = C.neg(P, K)
        if use_c:
            rv, out = capi(lib, gs + "_negate", psz, PA)
        else:
            rv, out = lib.op(gs + "_neg", PA)
        got = b_proj(g, out)
    elif op == "equal":
        e = 1 if P == Qp else 0
        if use_c:
            rv, _ = capi(lib, gs + "_equal", 0, PA, QA, restype=ctypes.c_bool, same_object=same_object)
            rv = 1 if rv else 0
        else:
            lib.A.write(PA)
            lib.B.write(QA)
            rv = lib.fn("vf_g_equal")(g, 0, lib.A.ptr, lib.A.ptr if same_object else lib.B.ptr)
        ctx.count(c, nontriv, cls)
        expect(rv == e, sig, lambda: "P=%r zP=%r Q=%r zQ=%r got=%d expected=%d" % (P, zP, Qp, zQ, rv, e))
        return
    elif op == "aff_equal":
        e = 1 if P == Qp else 0
        PAf, QAf = aff_b(lib, g, P, jP), aff_b(lib, g, Qp, jQ)
        if use_c:
            rv, _ = capi(lib, gs + "affine_equal", 0, PAf, QAf, restype=ctypes.c_bool)
            rv = 1 if rv else 0
        else:
            lib.A.write(PAf)
            lib.B.write(QAf)
            rv = lib.fn("vf_g_equal")(g, 1, lib.A.ptr, lib.B.ptr)
        ctx.count(c, nontriv, cls)
        expect(rv == e, sig, lambda: "P=%r Q=%r got=%d expected=%d" % (P, Qp, rv, e))
        return
    elif op == "from_affine":
        PAf = aff_b(lib, g, P, jP)
        if use_c:
            rv, out = capi(lib, gs + "_from_affine", psz, PAf)
        else:
            rv, out = lib.op(gs + "_from_affine", PAf)
        got, exp = b_proj(g, out), P
    elif op == "from_projective":
        if use_c:
            rv, out = capi(lib, gs + "affine_from_projective", asz, PA)
        else:
            rv, out = lib.op(gs + "a_from_proj", PA)
        got, exp = b_aff(lib, g, out), P
        ctx.count(c, nontriv, cls)
        expect(canonical(out, 2 * fsz), sig + "/noncanonical", lambda: "P=%r zP=%r" % (P, zP))
        expect(got == exp, sig, lambda: "P=%r zP=%r got=%r" % (P, zP, got))
        expect(out[lib.inf_off[g]] in (0, 1), sig + "/flag", "infinity flag byte not 0/1")
        related()
        return
    else:  # aff_neg
        PAf = aff_b(lib, g, P, jP)
        if use_c:
            rv, out = capi(lib, gs + "affine_negate", asz, PAf)
        else:
            rv, out = lib.op(gs + "a_neg", PAf)
        got, exp = b_aff(lib, g, out), C.neg(P, K)
    ctx.count(c, nontriv, cls)
    expect(canonical(out, 3 * fsz if len(out) == psz else 2 * fsz), sig + "/noncanonical", lambda: "P=%r Q=%r" % (P, Qp))
    expect(got == exp, sig, lambda: "P=%r zP=%r Q=%r zQ=%r got=%r expected=%r" % (P, zP, Qp, zQ, got, exp))
    if got is not None:
        expect(C.on_curve(got, K), sig + "/offcurve", lambda: "result %r not on the curve" % (got,))
    related()


def prebuild(tier):
    C.self_test()
    C.gen_mul(1, 3)
    C.gen_mul(2, 3)


SUBCHECKS = [
    Sub("group_law", cases(), check, 24000, 600000, ("asm",), ("asm", "p32")),
]
