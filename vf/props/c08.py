"""C08 - Prepared and multi-pairing forms agree with the product of single pairings."""
from hypothesis import strategies as st

from .. import conv, gens
from ..ref import curve as C
from ..ref import fields as F
from ..ref import pairing as PR
from ..runner import Sub, expect
from . import c05

RULE = ("Generated: lists of 0-6 pairs, each pair = (a_i, b_i) scalars (P_i=[a_i]g1, Q_i=[b_i]g2 from the reference), each flagged "
        "affine or prepared, identities at drawn positions (given with arbitrary coordinates), duplicate pairs, the same G2Prepared "
        "used twice, pair arrays pre-filled with junk private state, and the same arrays used for two consecutive calls. Oracle: "
        "pairing_sum == GTref^(sum a_i b_i mod r) (exact-value oracle through the reference pairing), prepared_pairing == GTref^(ab), "
        "empty list -> 1, second call on re-used arrays == first. Non-trivial = length >= 2 with both kinds present, or an identity "
        "inside, or length 0, or dirty / re-used arrays.")
ASSUMPTIONS = ["reference pairing and fixed-base GT powers (self-tested)", "the library's single pairing is decided by C01"]

R = F.R_ORDER
API = "embedded_pairing_bls12_381_"


@st.composite
def pair(draw):
    a = draw(st.one_of(st.sampled_from((0, 1, 2, R - 1, R)), gens.scalars(256).map(lambda x: x[1])))
    b = draw(st.one_of(st.sampled_from((0, 1, 2, R - 1, R)), gens.scalars(256).map(lambda x: x[1])))
    return {"a": a, "b": b, "prep": draw(st.booleans()), "j1": (draw(c05.fe(1)), draw(c05.fe(1))), "j2": (draw(c05.fe(2)), draw(c05.fe(2)))}


@st.composite
def cases(draw):
    n = draw(st.sampled_from((0, 1, 2, 2, 3, 3, 4, 5, 6, 2, 3, 4, 3, 2, 1, "long")))
    if n == "long":
        # lists longer than a machine word has bits (per-pair state kept in bit masks), with identities around positions 31/32, 63/64
        n = draw(st.sampled_from((33, 34, 40, 64, 65, 70)))
        kind = draw(st.sampled_from(("affine", "prepared", "mixed")))
        pairs = []
        for i in range(n):
            p = draw(pair())
            p["a"], p["b"] = 1 + (i * 7 + draw(st.integers(0, 5))) % 97, 1 + (i * 5) % 89
            p["prep"] = (kind == "prepared") or (kind == "mixed" and i % 3 == 0)
            pairs.append(p)
        for pos in draw(st.lists(st.sampled_from((0, 30, 31, 32, 33, 62, 63, 64, n - 1)), min_size=1, max_size=3)):
            if pos < n:
                pairs[pos]["a" if draw(st.booleans()) else "b"] = draw(st.sampled_from((0, R)))
        return {"pairs": pairs, "dirty": draw(st.booleans()), "rounds": 1, "cpp": draw(st.booleans()), "share": False}
    pairs = [draw(pair()) for _ in range(n)]
    if n >= 2 and draw(st.integers(0, 3)) == 0:
        pairs[draw(st.integers(1, n - 1))] = dict(pairs[0])          # duplicate pair
    if n >= 2 and draw(st.integers(0, 2)) == 0:
        i = draw(st.integers(0, n - 1))
        pairs[i]["a" if draw(st.booleans()) else "b"] = draw(st.sampled_from((0, R)))   # identity at a drawn position
    if n >= 2 and draw(st.integers(0, 2)) == 0:
        # e(P1,Q) * e(P2,Q): neighbouring pairs of the same kind with the same second argument (the first of them possibly with an
        # identity first argument); with "share" they refer to one and the same object
        i = draw(st.integers(1, n - 1))
        pairs[i]["b"], pairs[i]["j2"], pairs[i]["prep"] = pairs[i - 1]["b"], pairs[i - 1]["j2"], pairs[i - 1]["prep"]
        if draw(st.booleans()):
            pairs[i - 1]["a"] = draw(st.sampled_from((0, R)))
    c = {"pairs": pairs, "dirty": draw(st.booleans()), "rounds": draw(st.sampled_from((1, 1, 2))), "cpp": draw(st.booleans()), "share": draw(st.booleans())}
    if c["rounds"] == 2 and n >= 1 and draw(st.booleans()):
        # the second call runs on other points written over the same storage, the caller's pair records stay as they are:
        # identities become points and points become identities at drawn positions
        second = []
        for p in pairs:
            q = draw(pair())
            q["prep"] = p["prep"]
            was_ident = p["a"] % R == 0 or p["b"] % R == 0
            how = draw(st.integers(0, 3))
            if was_ident and how <= 1:
                q["a"], q["b"] = (q["a"] % R) or 1, (q["b"] % R) or 1
            elif not was_ident and how == 0:
                q["a" if draw(st.booleans()) else "b"] = draw(st.sampled_from((0, R)))
            elif how == 3:
                q["a"], q["b"] = p["a"], p["b"]
            second.append(q)
        c["second"] = second
    return c


def check(ctx, lib, c):
    import ctypes
    pairs = c["pairs"]
    aff = [p for p in pairs if not p["prep"]]
    prep = [p for p in pairs if p["prep"]]
    a1sz, a2sz, psz = lib.sizeof("G1Affine"), lib.sizeof("G2Affine"), lib.sizeof("G2Prepared")
    f_prep = getattr(lib.dll, API + "g2prepared_prepare")
    f_prep.restype = None

    def images(ps):
        """(G1Affine images affine-first, G2Affine images of the affine pairs, G2Prepared images) in aligned storage."""
        af = [p for p in ps if not p["prep"]]
        pr = [p for p in ps if p["prep"]]
        g1s = b"".join(c05.aff_b(lib, 1, C.gen_mul(1, p["a"]), tuple(p["j1"])) for p in af + pr)
        g2s = b"".join(c05.aff_b(lib, 2, C.gen_mul(2, p["b"]), tuple(tuple(x) for x in p["j2"])) for p in af)
        pbuf = ctypes.create_string_buffer(max(1, len(pr)) * psz + 64)
        pbase = (ctypes.addressof(pbuf) + 63) & ~63
        for i, p in enumerate(pr):
            lib.B.write(c05.aff_b(lib, 2, C.gen_mul(2, p["b"]), tuple(tuple(x) for x in p["j2"])))
            f_prep(ctypes.c_void_p(pbase + i * psz), lib.B.ptr)
        g1buf = ctypes.create_string_buffer(len(g1s) + 128)
        g1base = (ctypes.addressof(g1buf) + 63) & ~63
        ctypes.memmove(g1base, g1s, len(g1s))
        g2buf = ctypes.create_string_buffer(len(g2s) + 128)
        g2base = (ctypes.addressof(g2buf) + 63) & ~63
        ctypes.memmove(g2base, g2s, len(g2s))
        return (g1buf, g2buf, pbuf), g1base, g2base, pbase
    keep, g1base, g2base, pbase = images(pairs)
    second = c.get("second")
    rounds = c["rounds"]
    lib.O.fill(0xCD, 576 * rounds)
    lib.dll.vf_set_use_cpp(1 if c["cpp"] else 0)
    V = ctypes.c_void_p
    if second:
        keep2, g1b2, g2b2, pb2 = images(second)
        f = lib.fn("vf_pairing_sum2", ctypes.c_long, [V, ctypes.c_size_t, V, V, ctypes.c_size_t, V, ctypes.c_int, ctypes.c_int, V, V, V])
        rv = f(lib.O.ptr, len(aff), V(g1base), V(g2base), len(prep), V(pbase), (1 if c["dirty"] else 0) | (2 if c.get("share") else 0), rounds, V(g1b2), V(g2b2), V(pb2))
    else:
        f = lib.fn("vf_pairing_sum", ctypes.c_long, [V, ctypes.c_size_t, V, V, ctypes.c_size_t, V, ctypes.c_int, ctypes.c_int])
        rv = f(lib.O.ptr, len(aff), V(g1base), V(g2base), len(prep), V(pbase), (1 if c["dirty"] else 0) | (2 if c.get("share") else 0), rounds)
    lib.dll.vf_set_use_cpp(0)
    outs = [lib.O.read(576, 576 * i) for i in range(rounds)]
    e = sum(p["a"] * p["b"] for p in pairs) % R
    exp = PR.gt_pow_gen(e)
    ident = any(p["a"] % R == 0 or p["b"] % R == 0 for p in pairs)
    mixed = bool(aff) and bool(prep)
    nontriv = (len(pairs) >= 2 and mixed) or ident or not pairs or c["dirty"] or rounds > 1
    cls = "sum-n%s" % (len(pairs) if len(pairs) <= 6 else "long") + (":mixed" if mixed else "") + (":identity" if ident else "") + (":dirty" if c["dirty"] else "") + (":reused" if rounds > 1 else "")
    ctx.count(c, nontriv, cls)
    sig = "pairing_sum/%s" % ("cpp" if c["cpp"] else "capi")
    got = F.tower_to_flat(conv.b_fq12(outs[0]))
    expect(got == exp, sig + ("/empty" if not pairs else "/identity-inside" if ident else "/value"),
           lambda: "pairs=%r (affine first: %d affine, %d prepared)" % ([(hex(p["a"]), hex(p["b"]), p["prep"]) for p in pairs], len(aff), len(prep)))
    expect(rv == 0, sig + "/records-modified", lambda: "the product changed the %s pointers of the caller's pair records" % ("g1/g2 of affine" if rv & 1 else "g1/g2 of prepared"))
    if rounds > 1 and not second:
        expect(outs[1] == outs[0], sig + "/reused-arrays", "second call on the same pair arrays differs from the first")
    if second:
        e2 = sum(p["a"] * p["b"] for p in second) % R
        ctx.event("reused-records-other-points")
        expect(F.tower_to_flat(conv.b_fq12(outs[1])) == PR.gt_pow_gen(e2), sig + "/reused-records-other-points",
               lambda: "second product on the same pair records after the points were changed: first %r then %r" % ([(hex(p["a"]), hex(p["b"]), p["prep"]) for p in pairs], [(hex(p["a"]), hex(p["b"]), p["prep"]) for p in second]))
    # single prepared pairing equals the plain one (through the exact-value oracle)
    if prep:
        # (the prepared storage holds the second set of points when the records were re-used with other points)
        p = [q for q in second if q["prep"]][0] if second else prep[0]
        lib.A.write(c05.aff_b(lib, 1, C.gen_mul(1, p["a"]), tuple(p["j1"])))
        g = getattr(lib.dll, API + "prepared_pairing")
        g.restype = None
        lib.O.fill(0xCD, 576)
        g(lib.O.ptr, lib.A.ptr, ctypes.c_void_p(pbase))
        got1 = F.tower_to_flat(conv.b_fq12(lib.O.read(576)))
        expect(got1 == PR.gt_pow_gen(p["a"] * p["b"]), "prepared_pairing/value", lambda: "a=%x b=%x" % (p["a"], p["b"]))
        z = getattr(lib.dll, API + "g2prepared_is_zero")
        z.restype = ctypes.c_bool
        expect(bool(z(ctypes.c_void_p(pbase))) == (p["b"] % R == 0), "g2prepared_is_zero/value", lambda: "b=%x" % p["b"])


def prebuild(tier):
    PR.self_test()
    PR.gt_pow_gen(3)
    C.gen_mul(1, 3)
    C.gen_mul(2, 3)


SUBCHECKS = [
    Sub("pairing_sum", cases(), check, 12000, 150000, ("asm",), ("asm", "p32")),
]
