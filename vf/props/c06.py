"""C06 - Scalar multiplication returns [k]P for every scalar and every algorithm."""
import ctypes

from hypothesis import strategies as st

from .. import conv, gens
from ..ref import curve as C
from ..ref import fields as F
from ..runner import Sub, expect
from .c05 import KK, aff_b, b_proj, capi, fe, proj_b, zval

RULE = ("Generated: (routine, group, width, scalar, base, representation). Scalars come from gens.scalars: boundary mixture "
        "relative to r, multiples of r +- d, 2^bits - d (d <= 40), multiples of lambda and neighbours, c*|x|^i +- d, small, uniform. "
        "Bases: t*G in any Jacobian representative or affine (required for the eigenvalue methods), arbitrary curve points outside the "
        "subgroup and the identity for wNAF / table / double-and-add. Oracle: reference [k]P (affine double-and-add; fixed-base table "
        "for t*G), plus recoding invariants (sum of digits*2^i == k, digits odd and < 2^w, length <= bits+1) and decomposition "
        "invariants (sum c_i |x|^i == k mod r). Non-trivial = scalar in a boundary class (not 'uniform'), or base not normalised / "
        "outside the subgroup / identity.")
ASSUMPTIONS = ["reference group law (self-tested)", "eigenvalue methods are only given subgroup bases (documented precondition)",
               "PowersOfX digits are generated in the documented range [0,|x|) (c3 up to the largest value decompose can produce)"]

R = F.R_ORDER
ABS_X = -F.X
API = "embedded_pairing_bls12_381_"
MAX_C3 = ((1 << 256) - 1 - R) // ABS_X**3


@st.composite
def sub_base(draw, g):
    """Subgroup base t*G with its discrete log and a representation."""
    t = draw(st.one_of(st.sampled_from((1, 2, R - 1, 0)), st.integers(1, R - 1)))
    zt, z = draw(zval(g))
    aff = draw(st.booleans())
    return {"t": t, "z": z, "zt": zt, "aff": aff}


@st.composite
def any_base(draw, g):
    kind = draw(st.sampled_from(("sub", "curve", "curve", "identity")))
    zt, z = draw(zval(g))
    aff = draw(st.booleans())
    if kind == "sub":
        return {"kind": kind, "t": draw(st.integers(1, R - 1)), "z": z, "zt": zt, "aff": aff}
    if kind == "identity":
        return {"kind": kind, "z": z, "zt": zt, "aff": aff, "junk": (draw(fe(g)), draw(fe(g)))}
    return {"kind": kind, "x": draw(fe(g)), "which": draw(st.integers(0, 1)), "z": z, "zt": zt, "aff": aff}


def base_point(g, b):
    K = KK(g)
    kind = b.get("kind", "sub")
    if kind == "sub":
        return C.gen_mul(g, b["t"])
    if kind == "identity":
        return None
    x = b["x"] if g == 1 else tuple(b["x"])
    for _ in range(64):
        P = C.lift_x(x, K, b["which"])
        if P is not None:
            return P
        x = K.add(x, K.one)
    return C.gen_mul(g, 1)


def base_image(lib, g, b, P):
    z = b["z"] if g == 1 else tuple(b["z"])
    junk = b.get("junk", (KK(g).zero, KK(g).one))
    if g == 2:
        junk = tuple(tuple(x) for x in junk)
    if b["aff"]:
        return aff_b(lib, g, P, junk)
    return proj_b(g, P, z, junk)


def expected(g, b, P, k):
    if b.get("kind", "sub") == "sub":
        return C.gen_mul(g, b["t"] * k)
    return C.mul(P, k, KK(g))


# ---- main entry points (256-bit) -----------------------------------------------------------
@st.composite
def main_cases(draw):
    g = draw(st.sampled_from((1, 2)))
    ts, k = draw(gens.scalars(256))
    b = draw(sub_base(g))
    route = draw(st.sampled_from(("capi", "capi", "cpp", "method")))
    return {"g": g, "k": k, "ts": ts, "b": b, "route": route}


def check_main(ctx, lib, c):
    g, k, b = c["g"], c["k"], c["b"]
    P = C.gen_mul(g, b["t"])
    img = base_image(lib, g, b, P)
    K = conv.bi(k, 256)
    gs = "g%d" % g
    psz = lib.sizeof("G1" if g == 1 else "G2")
    route = c["route"]
    if route == "capi":
        name = gs + ("_multiply_affine" if b["aff"] else "_multiply")
        rv, out = capi(lib, name, psz, img, K)
        sig = name
    elif route == "cpp":
        name = gs + ("_mul_affine" if b["aff"] else "_mul")
        rv, out = lib.op(name, img, K)
        sig = name
    else:
        if b["aff"]:
            name = gs + "_mul_affine"
        else:
            name = "g1_mul_endo" if g == 1 else "g2_mul_frob"
        rv, out = lib.op(name, img, K)
        sig = name
    got = b_proj(g, out)
    exp = C.gen_mul(g, b["t"] * k)
    nontriv = not c["ts"].endswith("uniform") or b["zt"] != "one" or b["t"] in (0, 1)
    ctx.count(c, nontriv, "%s-main:%s" % (gs, c["ts"]))
    if k >= R:
        ctx.event("class/k>=r")
    expect(got == exp, "%s/value" % sig, lambda: "k=%x t=%x z=%r affine=%r got=%r expected=%r" % (k, b["t"], b["z"], b["aff"], got, exp))
    # two follow-up calls through the same entry point, related to the first one the way a caller's next call often is: the negated base
    # in the same representative (same x and z, other y), and the result of the first call as the next base with another scalar. A
    # multiplication is a function of its arguments; tables or decompositions remembered from the previous call must not leak in.
    k2 = (k * 0x9E3779B97F4A7C15 + b["t"] + 1) % (1 << 256)
    K2 = conv.bi(k2, 256)
    nP = C.neg(P, KK(g)) if P is not None else None
    img_n = base_image(lib, g, b, nP)
    if route == "capi":
        out_n = capi(lib, name, psz, img_n, K2)[1]
    else:
        out_n = lib.op(name, img_n, K2)[1]
    exp_n = C.gen_mul(g, (-b["t"] * k2) % R)
    expect(b_proj(g, out_n) == exp_n, "%s/after-related-call/negated-base" % sig, lambda: "first [k]P with k=%x t=%x, then [k2](-P) with k2=%x: wrong result" % (k, b["t"], k2))
    if not b["aff"]:
        if route == "capi":
            out_c = capi(lib, name, psz, out, K2)[1]
        else:
            out_c = lib.op(name, out, K2)[1]
        expect(b_proj(g, out_c) == C.gen_mul(g, b["t"] * k * k2), "%s/after-related-call/result-as-base" % sig, lambda: "[k2]([k]P) with k=%x k2=%x t=%x: wrong result" % (k, k2, b["t"]))
        if route != "capi":
            # the same chain with the first multiplication done in place (R = P; R = [k]R; S = [k2]R)
            out_i = lib.op(name, img, K, alias="a")[1]
            out_j = lib.op(name, out_i, K2)[1]
            expect(b_proj(g, out_j) == C.gen_mul(g, b["t"] * k * k2), "%s/after-related-call/in-place-then-result-as-base" % sig, lambda: "R=[k]R in place, then [k2]R with k=%x k2=%x t=%x: wrong result" % (k, k2, b["t"]))


# ---- wNAF / table / double-and-add on any width ------------------------------------------------
WINDOWS = {64: (2, 3, 4), 128: (2, 3, 4, 5), 256: (2, 3, 4, 5, 6), 512: (2, 4)}
INSTANTIATED = {(128, 4), (512, 4), (256, 4), (64, 2)}


@st.composite
def wnaf_cases(draw):
    g = draw(st.sampled_from((1, 2)))
    bits = draw(st.sampled_from((64, 128, 256, 512, 128, 512)))
    ts, k = draw(gens.scalars(bits))
    if bits == 512 and draw(st.booleans()):
        k >>= draw(st.sampled_from((0, 1, 256, 300)))
    algo = draw(st.sampled_from(("wnaf", "wnaf", "doubleadd", "entry")))
    w = draw(st.sampled_from(WINDOWS[bits]))
    if draw(st.booleans()):
        w = 4 if bits != 64 else 2
    mode = draw(st.integers(0, 2))
    b = draw(any_base(g))
    return {"g": g, "bits": bits, "k": k, "ts": ts, "algo": algo, "w": w, "mode": mode, "b": b}


def check_wnaf(ctx, lib, c):
    g, bits, k, b, algo = c["g"], c["bits"], c["k"], c["b"], c["algo"]
    P = base_point(g, b)
    img = base_image(lib, g, b, P)
    K = conv.bi(k, bits)
    psz = lib.sizeof("G1" if g == 1 else "G2")
    lib.A.write(img)
    lib.B.write(K)
    lib.O.fill(0xCD, psz)
    aff = 1 if b["aff"] else 0
    cls = "g%d-%s-%d" % (g, algo, bits)
    if algo == "wnaf":
        w, mode = c["w"], c["mode"]
        rv = lib.fn("vf_wnaf_mul")(g, bits, w, lib.O.ptr, lib.A.ptr, aff, lib.B.ptr, mode)
        sig = "multiply_wnaf/g%d/bits=%d/window=%d" % (g, bits, w)
        cls += "-w%d" % w
        if (bits, w) not in INSTANTIATED:
            cls += "-ext"
    elif algo == "doubleadd":
        rv = lib.fn("vf_doubleadd")(g, bits, lib.O.ptr, lib.A.ptr, aff, lib.B.ptr)
        sig = "multiply_doubleadd/g%d/bits=%d" % (g, bits)
    else:
        # the width-dispatched entry points G1::multiply<BigInt<128>>, G2::multiply<BigInt<512>>
        if (g, bits) == (1, 128):
            lib.fn("vf_g1_mul_128", None)(lib.O.ptr, lib.A.ptr, aff, lib.B.ptr)
            rv, sig = 0, "G1::multiply<BigInt<128>>"
        elif (g, bits) == (2, 512):
            lib.fn("vf_g2_mul_512", None)(lib.O.ptr, lib.A.ptr, aff, lib.B.ptr)
            rv, sig = 0, "G2::multiply<BigInt<512>>"
        else:
            rv = lib.fn("vf_wnaf_mul")(g, bits, 4 if bits != 64 else 2, lib.O.ptr, lib.A.ptr, aff, lib.B.ptr, 0)
            sig = "multiply_wnaf/g%d/bits=%d/window=%d" % (g, bits, 4 if bits != 64 else 2)
    expect(rv == 0, "harness/" + sig, "dispatch failed")
    out = lib.O.read(psz)
    got = b_proj(g, out)
    exp = expected(g, b, P, k)
    nontriv = not c["ts"].endswith("uniform") or b.get("kind") != "sub" or b["zt"] != "one"
    top = k >= (1 << bits) - 64
    ctx.count(c, nontriv, cls + (":top" if top else ""))
    expect(got == exp, sig + ("/top-of-range" if top and k % 2 == 1 else "/value"),
           lambda: "k=%x bits=%d base=%r got=%r expected=%r" % (k, bits, b, got, exp))


# ---- recoding and decomposition invariants -----------------------------------------------------
@st.composite
def recode_cases(draw):
    kind = draw(st.sampled_from(("wnaf", "wnaf", "px", "px_mul", "endo_parts")))
    if kind == "wnaf":
        bits = draw(st.sampled_from((64, 128, 256, 512)))
        w = draw(st.sampled_from(WINDOWS[bits]))
        ts, k = draw(gens.scalars(bits))
        return {"kind": kind, "bits": bits, "w": w, "k": k, "ts": ts}
    if kind == "px":
        ts, k = draw(gens.scalars(256))
        return {"kind": kind, "k": k, "ts": ts}
    if kind == "px_mul":
        ds = []
        for i in range(4):
            hi = ABS_X - 1 if i < 3 else MAX_C3
            how = draw(st.integers(0, 4))
            if how == 0:
                d = hi - draw(st.integers(0, 8))
            elif how == 1:
                d = draw(st.integers(0, 8))
            elif how == 2:
                d = draw(gens.ints(64))[1] % (hi + 1)
            else:
                d = draw(st.integers(0, hi))
            ds.append(d)
        return {"kind": kind, "c": ds, "b": draw(sub_base(2))}
    # multiply_endomorphism with explicit parts (documented half-width parts; c*lambda may wrap mod r)
    c0 = draw(gens.ints(256))[1] >> draw(st.sampled_from((0, 1, 64, 127, 128, 129)))
    c1 = draw(gens.ints(256))[1] >> draw(st.sampled_from((0, 1, 64, 127, 128, 129)))
    return {"kind": kind, "c0": c0, "c1": c1, "n0": draw(st.booleans()), "n1": draw(st.booleans()), "b": draw(sub_base(1))}


_lambda = {}


def lib_lambda(lib):
    """The eigenvalue of the library's endomorphism on G1, determined by the reference from phi(G)."""
    key = id(lib)
    if key not in _lambda:
        rv, out = lib.op("g1_endo", conv.g1_proj_b(C.G1_GEN, 1))
        phiG = conv.b_g1_proj(out)
        cands = [(F.X * F.X - 1) % R, (-F.X * F.X) % R]
        lam = [l for l in cands if C.gen_mul(1, l) == phiG]
        expect(len(lam) == 1, "g1_endomorphism/eigenvalue", "phi(G) is not [lambda]G for either cube root of unity mod r")
        _lambda[key] = lam[0]
    return _lambda[key]


def check_recode(ctx, lib, c):
    kind = c["kind"]
    if kind == "wnaf":
        bits, w, k = c["bits"], c["w"], c["k"]
        buf = ctypes.create_string_buffer(bits + 1 + 64)
        lib.A.write(conv.bi(k, bits))
        n = lib.fn("vf_wnaf_recode")(bits, w, buf, lib.A.ptr)
        digits = [x - 256 if x > 127 else x for x in buf.raw[:bits + 1]]
        top = k >= (1 << bits) - 64
        ctx.count(c, not c["ts"].endswith("uniform"), "recode-%d-w%d" % (bits, w) + (":top" if top else ""))
        sig = "WnafScalar::from_bigint/bits=%d/window=%d" % (bits, w)
        expect(0 <= n <= bits + 1, sig + "/length", lambda: "k=%x wnaf_size=%d" % (k, n))
        val = sum(d << i for i, d in enumerate(digits[:n]))
        expect(val == k, sig + ("/top-of-range" if top and k % 2 == 1 else "/value"), lambda: "k=%x digits recombine to %x" % (k, val))
        expect(all(d == 0 or (d % 2 == 1 and abs(d) < (1 << w)) for d in digits[:n]), sig + "/digits", lambda: "k=%x digits=%r" % (k, digits[:n]))
        return
    if kind == "px":
        k = c["k"]
        rv, out = lib.call("vf_px_decompose", lib.sizeof("PowersOfX"), "O", conv.bi(k, 256), restype=None)
        cs = conv.px_unpack(lib, out)
        val = sum(ci * ABS_X**i for i, ci in enumerate(cs))
        ctx.count(c, not c["ts"].endswith("uniform"), "decompose:" + c["ts"])
        expect(val % R == k % R, "PowersOfX::decompose/value", lambda: "k=%x digits=%r" % (k, cs))
        expect(all(ci < ABS_X for ci in cs[:3]) and (k >= R or cs[3] < ABS_X), "PowersOfX::decompose/range", lambda: "k=%x digits=%r" % (k, cs))
        return
    if kind == "px_mul":
        cs, b = c["c"], c["b"]
        P = C.gen_mul(2, b["t"])
        img = proj_b(2, P, tuple(b["z"]), ((0, 0), (1, 0)))
        px = conv.px_pack(lib, cs)
        rv, out = lib.op("g2_mul_frob_px", img, px)
        got = conv.b_g2_proj(out)
        k = sum(ci * ABS_X**i for i, ci in enumerate(cs))
        exp = C.gen_mul(2, b["t"] * k)
        ctx.count(c, True, "frobenius-px")
        expect(got == exp, "G2::multiply_frobenius(PowersOfX)/value", lambda: "digits=%r t=%x" % (cs, b["t"]))
        return
    lam = lib_lambda(lib)
    c0, c1, n0, n1, b = c["c0"], c["c1"], c["n0"], c["n1"], c["b"]
    P = C.gen_mul(1, b["t"])
    lib.A.write(conv.g1_proj_b(P, b["z"]))
    lib.B.write(conv.bi(c0, 256))
    lib.C.write(conv.bi(c1, 256))
    lib.O.fill(0xCD, 144)
    lib.fn("vf_g1_mul_endo_parts", None)(lib.O.ptr, lib.A.ptr, lib.B.ptr, 1 if n0 else 0, lib.C.ptr, 1 if n1 else 0)
    got = conv.b_g1_proj(lib.O.read(144))
    k = ((-c0 if n0 else c0) + (-c1 if n1 else c1) * lam) % R
    exp = C.gen_mul(1, b["t"] * k)
    top = max(c0, c1) >= (1 << 256) - 64
    ctx.count(c, True, "endo-parts" + (":top" if top else ""))
    expect(got == exp, "G1::multiply_endomorphism(parts)" + ("/top-of-range" if top else "/value"), lambda: "c0=%x n0=%r c1=%x n1=%r t=%x" % (c0, n0, c1, n1, b["t"]))


def static_checks(tier, vseed):
    """The exported lambda constant equals the eigenvalue determined by the reference."""
    from .. import lib as libmod
    lib = libmod.get("asm")
    fails = []
    try:
        lam = lib_lambda(lib)
        sym = (ctypes.c_ubyte * 32).in_dll(lib.dll, "_ZN16embedded_pairing9bls12_38122g1_endomorphism_lambdaE")
        got = int.from_bytes(bytes(sym), "little")
        if got != lam:
            fails.append(("static-lambda", "asm", {"i": hex(got)}, "g1_endomorphism_lambda/value", "constant %x is not the eigenvalue %x of the library's endomorphism" % (got, lam)))
    except ValueError:
        pass
    return {"evaluations": 1, "classes": {"static-lambda": 1}, "samples": {}, "failures": fails, "nontrivial": [b"lambda"]}


def prebuild(tier):
    C.self_test()
    C.gen_mul(1, 3)
    C.gen_mul(2, 3)


SUBCHECKS = [
    Sub("main", main_cases(), check_main, 24000, 300000, ("asm",), ("asm", "p32")),
    Sub("wnaf", wnaf_cases(), check_wnaf, 8000, 120000, ("asm",), ("asm", "p32")),
    Sub("recode", recode_cases(), check_recode, 30000, 400000, ("asm",), ("asm", "p32")),
]
