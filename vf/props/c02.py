"""C02 - Fq and Fr arithmetic is exact modular arithmetic with canonical results."""
import ctypes

from hypothesis import strategies as st

from .. import conv, gens
from ..ref import fields as F
from ..runner import Sub, Violation, expect

RULE = ("Generated: (field, operation, operands) with operands built by the boundary mixture of gens.ints "
        "(specials, 2^k+-d, m-2^k, limb patterns, shared-top-words-with-the-modulus, sparse/dense, uniform) and by "
        "target construction (operands solved so that the value before the final conditional subtraction lands on a "
        "chosen target). Oracle: Python integers through the Montgomery view. Non-trivial = the simulated pre-correction "
        "value is >= p, == p, within 2 of p or shares p's top 64-bit word; or a carry/borrow crosses >= 2 words; or the "
        "exponent has leading zero words; or a byte input is >= the modulus; or an operand is 0/1/p-1. Distinct = distinct "
        "(subcheck, case) hashes among non-trivial cases.")
ASSUMPTIONS = ["Python integer arithmetic and pow() are correct",
               "the shim only forwards to the library (shim/shim.cpp)",
               "operands are canonical (< modulus) as the property's quantifier states, except where an API accepts full-width input (set, read_big_endian, hash_reduce, exponents)"]

FIELDS = {
    "fq": dict(bits=384, p=F.Q, R=F.FQ_R, Rinv=F.FQ_RINV, inv=F.FQ_INV, mask_bits=381, misc="vf_fq_misc", exp="vf_fq_exp"),
    "fr": dict(bits=256, p=F.R_ORDER, R=F.FR_R, Rinv=F.FR_RINV, inv=F.FR_INV, mask_bits=255, misc="vf_fr_misc", exp="vf_fr_exp"),
}


def mont_pre(T, fld):
    """Value of the Montgomery reduction of T before the conditional subtraction."""
    f = FIELDS[fld]
    bits, p = f["bits"], f["p"]
    m = (T * f["inv"]) & ((1 << bits) - 1)
    u = (T + m * p) >> bits
    return u


def classify_pre(u, fld):
    f = FIELDS[fld]
    p, bits = f["p"], f["bits"]
    c = []
    if u == p:
        c.append("eq-p")
    if abs(u - p) <= 2:
        c.append("near-p")
    if u >= p:
        c.append("ge-p")
    if (u >> (bits - 64)) == (p >> (bits - 64)):
        c.append("top64-eq")
    if (u >> (bits - 32)) == (p >> (bits - 32)):
        c.append("top32-eq")
    if u >> bits:
        c.append("carry-out")
    return c


def carry_chain(a, b, sub=False):
    """Longest run of 32-bit limbs through which a carry/borrow propagates."""
    best = run = 0
    c = 0
    for i in range(0, 24):
        x, y = (a >> (32 * i)) & 0xFFFFFFFF, (b >> (32 * i)) & 0xFFFFFFFF
        if not sub:
            s = x + y + c
            c = s >> 32
        else:
            s = x - y - c
            c = 1 if s < 0 else 0
        run = run + 1 if c else 0
        best = max(best, run)
    return best


@st.composite
def binop_cases(draw, fld, force_op=None):
    f = FIELDS[fld]
    bits, p, R = f["bits"], f["p"], f["R"]
    op = force_op or draw(st.sampled_from(("add", "sub", "mul", "sqr", "dbl", "neg", "add", "sub", "mul")))
    mode = draw(st.sampled_from(("pair", "target", "target")))
    ta, a = draw(gens.canon(bits, p))
    tb, b = draw(gens.canon(bits, p))
    if mode == "target" and op != "neg":
        tT, T = draw(gens.ints(bits, p))
        tb = "target-" + tT
        if op == "add":
            T %= 2 * p - 1
            lo, hi = max(0, T - p + 1), min(p - 1, T)
            a = lo + a % (hi - lo + 1)
            b = T - a
        elif op == "sub":
            d = gens.below(T, p)
            if draw(st.booleans()):
                d = draw(st.integers(0, 3))
            if draw(st.booleans()):
                b = (a + d) % p    # a - b = -d  (borrow unless d == 0)
                if b < a and d:    # wrapped: take the difference the other way
                    a, b = b, a
            else:
                a = (b + d) % p
        elif op == "dbl":
            T %= 2 * p - 1
            a = min(T // 2, p - 1)
        elif op in ("mul", "sqr"):
            want = gens.below(T, p)
            if op == "mul":
                if a == 0:
                    a = 1
                for nonce in range(6):
                    aa = (a + nonce) % p or 1
                    bb = want * R % p * pow(aa, -1, p) % p
                    if mont_pre(aa * bb, fld) >= p or nonce == 5:
                        a, b = aa, bb
                        break
            else:
                # a^2 * Rinv = want  <=>  a = sqrt(want * R); keep a if no root
                s = want * R % p
                rt = F.fq_sqrt(s) if fld == "fq" else F.fr_sqrt(s)
                if rt is not None:
                    a = rt if draw(st.booleans()) else (p - rt) % p
    return {"f": fld, "op": op, "a": a, "b": b, "ta": ta, "tb": tb}


OPNAME = {"add": "add", "sub": "sub", "mul": "mul", "sqr": "sqr", "dbl": "dbl", "neg": "neg"}


def check_binop(ctx, lib, c):
    fld, op, a, b = c["f"], c["op"], c["a"], c["b"]
    f = FIELDS[fld]
    bits, p, Rinv = f["bits"], f["p"], f["Rinv"]
    A, B = conv.bi(a, bits), conv.bi(b, bits)
    name = "%s_%s" % (fld, OPNAME[op])
    if op == "add":
        pre = a + b
        exp = pre % p
        cls = classify_pre(pre, fld)
        if carry_chain(a, b) >= 3:
            cls.append("carry3")
        rv, out = lib.op(name, A, B)
    elif op == "sub":
        pre = a - b
        exp = pre % p
        cls = ["borrow"] if pre < 0 else []
        if pre == 0:
            cls.append("equal")
        if -3 <= pre <= 3:
            cls.append("near0")
        if carry_chain(a, b, True) >= 3:
            cls.append("borrow3")
        rv, out = lib.op(name, A, B)
    elif op == "dbl":
        pre = 2 * a
        exp = pre % p
        cls = classify_pre(pre, fld)
        rv, out = lib.op(name, A)
    elif op == "neg":
        exp = (-a) % p
        cls = ["zero"] if a == 0 else (["one"] if a in (1, p - 1) else [])
        rv, out = lib.op(name, A)
    elif op == "mul":
        pre = mont_pre(a * b, fld)
        exp = a * b * Rinv % p
        cls = classify_pre(pre, fld)
        if a == 0 or b == 0:
            cls.append("zero")
        rv, out = lib.op(name, A, B)
    else:
        pre = mont_pre(a * a, fld)
        exp = a * a * Rinv % p
        cls = classify_pre(pre, fld)
        rv, out = lib.op(name, A)
    got = conv.ib(out)
    ctx.count(c, bool(cls), "%s-%s" % (fld, op) + ("" if not cls else ":" + cls[0]))
    for k in cls:
        ctx.event("class/%s/%s" % (fld, k))
    expect(got < p, "%s/noncanonical" % name, lambda: "a=%x b=%x got=%x >= p" % (a, b, got))
    expect(got == exp, "%s/value" % name, lambda: "a=%x b=%x got=%x expected=%x" % (a, b, got, exp))
    if op in ("add", "sub", "mul"):
        # the same operation with one object as both operands (r.add(x, x)): a shortcut keyed on pointer identity sees nothing else
        rv, out = lib.op(name, A, None, alias="b=a")
        e2 = {"add": 2 * a % p, "sub": 0, "mul": a * a * Rinv % p}[op]
        expect(conv.ib(out) == e2, "%s/same-object" % name, lambda: "a=%x as both operands: got=%x expected=%x" % (a, conv.ib(out), e2))


@st.composite
def mred_cases(draw, fld):
    """Inputs of montgomery_reduce constructed to hit a chosen pre-subtraction value U."""
    f = FIELDS[fld]
    bits, p = f["bits"], f["p"]
    tU, U = draw(gens.ints(bits, p))
    U %= 2 * p
    if draw(st.integers(0, 3)) == 0:
        U = p + draw(st.integers(-3, 3))
    tm, m = draw(gens.ints(bits, p))
    # need 0 <= A = U*2^bits - m*p < p*2^bits
    lo = max(0, ((U - p) << bits) // p + 1)
    hi = (U << bits) // p
    if lo > hi:
        U = p
        lo, hi = 1, (U << bits) // p
    hi = min(hi, (1 << bits) - 1)
    m = lo + m % (hi - lo + 1)
    A = (U << bits) - m * p
    return {"f": fld, "A": A, "U": U, "tU": tU}


def check_mred(ctx, lib, c):
    fld, A, U = c["f"], c["A"], c["U"]
    f = FIELDS[fld]
    bits, p = f["bits"], f["p"]
    assert 0 <= A < (p << bits)
    pre = mont_pre(A, fld)
    assert pre == U, (pre, U)
    exp = A * f["Rinv"] % p
    rv, out = lib.call(f["misc"], bits // 8, 9, "O", conv.bi(A, 2 * bits), 0)
    got = conv.ib(out)
    cls = classify_pre(pre, fld)
    ctx.count(c, bool(cls), "%s-mred" % fld + ("" if not cls else ":" + cls[0]))
    for k in cls:
        ctx.event("class/%s/mred-%s" % (fld, k))
    expect(got < p, "%s_montgomery_reduce/noncanonical" % fld, lambda: "A=%x got=%x" % (A, got))
    expect(got == exp, "%s_montgomery_reduce/value" % fld, lambda: "A=%x got=%x expected=%x" % (A, got, exp))


@st.composite
def unary_cases(draw, fld):
    f = FIELDS[fld]
    bits, p = f["bits"], f["p"]
    op = draw(st.sampled_from(("inv", "set", "get", "legendre", "sqrt", "exp", "cmp", "flags", "reduce", "intomont")))
    ta, a = draw(gens.canon(bits, p))
    c = {"f": fld, "op": op, "a": a, "ta": ta}
    if op == "set":
        c["a"] = draw(gens.ints(bits, p))[1]
    elif op == "reduce":
        c["a"] = draw(gens.ints(bits, p))[1] % (2 * p)
    elif op == "intomont":
        c["a"] = draw(gens.ints(bits, p))[1] & ((1 << f["mask_bits"]) - 1)
    elif op == "exp":
        w = draw(st.sampled_from((64, 128, 256, 384, 512)))
        te, e = draw(gens.ints(w, p if w >= bits else None))
        if draw(st.integers(0, 3)) == 0:
            e >>= draw(st.sampled_from((32, 64, 96, w - 8, w - 1)))
        c["w"], c["e"], c["te"] = w, e, te
    elif op == "cmp":
        tb, b = draw(gens.canon(bits, p))
        how = draw(st.integers(0, 4))
        if how == 0:
            b = a
        elif how == 1:
            b = a ^ (1 << draw(st.integers(0, bits - 1)))
            b = gens.below(b, p)
        c["b"] = b
    return c


def check_unary(ctx, lib, c):
    fld, op, a = c["f"], c["op"], c["a"]
    f = FIELDS[fld]
    bits, p, R, Rinv = f["bits"], f["p"], f["R"], f["Rinv"]
    nb = bits // 8
    A = conv.bi(a, bits)
    val = a * Rinv % p
    sig = "%s_%s" % (fld, op)
    nontriv = a in (0, 1, p - 1, R, (p - R) % p)
    if op == "inv":
        name = "fq_inv"

        def inv(img, inplace=False):
            if fld == "fq":
                return lib.op("fq_inv", img, alias="a" if inplace else None)[1]
            if not inplace:
                return lib.call(f["misc"], nb, 10, "O", img, 0)[1]
            fn = lib.fn(f["misc"], ctypes.c_long)
            lib.A.write_operand(img)
            fn(ctypes.c_long(10), lib.A.ptr, lib.A.ptr, ctypes.c_long(0))
            return lib.A.read(nb)
        first_inplace = bool((a >> 5) & 1)      # (a function of the case)
        out = inv(A, first_inplace)
        got = conv.ib(out)
        exp = (pow(val, -1, p) * R % p) if val else 0
        nontriv = nontriv or val in (0, 1, p - 1, 2, (p + 1) // 2)
        ctx.count(c, nontriv, "%s-inv" % fld + ("-inplace" if first_inplace else ""))
        expect(got < p and got == exp, sig + ("/inplace" if first_inplace else "/value"), lambda: "a=%x got=%x expected=%x" % (a, got, exp))
        # related calls directly afterwards: the inversion of that result (must give a back), the inversion of -a in place and of its
        # result, and the first inversion again. Inversion is a function of its argument, whatever was inverted before.
        r2 = conv.ib(inv(out, bool((a >> 6) & 1)))
        expect(r2 == (a if val else 0), sig + "/after-related-call/inverse-of-result", lambda: "a=%x: inverse(inverse(a)) = %x" % (a, r2))
        na = (p - a) % p
        o3 = inv(conv.bi(na, bits), not first_inplace)
        expect(conv.ib(o3) == (p - exp) % p, sig + "/after-related-call/negated", lambda: "a=%x: inverse(-a) after inverse(a) = %x" % (a, conv.ib(o3)))
        r4 = conv.ib(inv(o3))
        expect(r4 == (na if val else 0), sig + "/after-related-call/inverse-of-result", lambda: "a=%x: inverse(inverse(-a)) = %x" % (a, r4))
        r5 = conv.ib(inv(A))
        expect(r5 == exp, sig + "/after-related-call/repeat", lambda: "a=%x: inverse(a) again = %x" % (a, r5))
    elif op == "set":
        rv, out = lib.op("%s_set" % fld, A)
        got = conv.ib(out)
        exp = a * R % p
        ctx.count(c, a >= p or nontriv, "%s-set" % fld + (":ge-p" if a >= p else ""))
        expect(got < p and got == exp, sig + "/value", lambda: "i=%x got=%x expected=%x" % (a, got, exp))
    elif op == "get":
        rv, out = lib.call(f["misc"], nb, 0, "O", A, 0)
        got = conv.ib(out)
        ctx.count(c, nontriv, "%s-get" % fld)
        expect(got == val, sig + "/value", lambda: "raw=%x got=%x expected=%x" % (a, got, val))
    elif op == "legendre":
        rv, _ = lib.call(f["misc"], 0, 1, "O", A, 0)
        exp = 0 if val == 0 else (1 if pow(val, (p - 1) // 2, p) == 1 else -1)
        ctx.count(c, nontriv or exp == 0, "%s-legendre:%d" % (fld, exp))
        expect(rv == exp, sig + "/value", lambda: "raw=%x got=%d expected=%d" % (a, rv, exp))
        # the symbol is a function of the argument: zero twice, then the same argument again
        for _ in range(2):
            rz, _o = lib.call(f["misc"], 0, 1, "O", conv.bi(0, bits), 0)
            expect(rz == 0, sig + "/after-related-call/zero", lambda: "legendre(0) = %d after legendre(%x)" % (rz, a))
        ra, _o = lib.call(f["misc"], 0, 1, "O", A, 0)
        expect(ra == exp, sig + "/after-related-call/repeat", lambda: "raw=%x: %d, then %d after two legendre(0)" % (a, exp, ra))
    elif op == "sqrt":
        s = val * val % p
        S = conv.bi(s * R % p, bits)
        rv, out = lib.op("%s_sqrt" % fld, S)
        got = conv.ib(out)
        gv = got * Rinv % p
        ctx.count(c, nontriv or s in (0, 1), "%s-sqrt" % fld)
        expect(got < p and gv * gv % p == s and gv in (val, (p - val) % p), sig + "/value", lambda: "s=%x got=%x" % (s, gv))
        # related calls: the root of 4s (= +-2a), of s again in place (Fq only: Fr::square_root declares its argument __restrict,
        # so an in-place call is outside its contract), and of s once more
        for what, v2, inplace in (("4s", 2 * val % p, False), ("s again, in place", val, fld == "fq"), ("s again", val, False)):
            s2 = v2 * v2 % p
            o2 = lib.op("%s_sqrt" % fld, conv.bi(s2 * R % p, bits), alias="a" if inplace else None)[1]
            g2 = conv.ib(o2) * Rinv % p
            expect(g2 in (v2, (p - v2) % p), sig + "/after-related-call", lambda: "s=%x, then sqrt(%s): got %x" % (s, what, g2))
    elif op == "exp":
        w, e = c["w"], c["e"]
        rv, out = lib.call(f["exp"], nb, w, "O", A, conv.bi(e, w))
        got = conv.ib(out)
        exp = pow(val, e, p) * R % p
        lead0 = e.bit_length() <= w - 32
        ctx.count(c, nontriv or lead0 or e >= p, "%s-exp%d" % (fld, w) + (":lead0" if lead0 else ""))
        expect(rv == 0 and got < p and got == exp, sig + "/value", lambda: "a=%x e=%x w=%d got=%x expected=%x" % (a, e, w, got, exp))
        # related calls: the same exponent on -a, then the result as the next base
        na = (p - a) % p
        o2 = lib.call(f["exp"], nb, w, "O", conv.bi(na, bits), conv.bi(e, w))[1]
        e2 = pow(p - val, e, p) * R % p
        expect(conv.ib(o2) == e2, sig + "/after-related-call/negated", lambda: "a=%x e=%x w=%d: (-a)^e after a^e = %x" % (a, e, w, conv.ib(o2)))
        o3 = lib.call(f["exp"], nb, w, "O", o2, conv.bi(e, w))[1]
        expect(conv.ib(o3) == pow(e2 * Rinv % p, e, p) * R % p, sig + "/after-related-call/result-as-base", lambda: "a=%x e=%x w=%d" % (a, e, w))
    elif op == "cmp":
        b = c["b"]
        Bb = conv.bi(b, bits)
        rv, _ = lib.call(f["misc"], 0, 2, "O", A, Bb)
        exp = (a > b) - (a < b)
        eq, _ = lib.call(f["misc"], 0, 3, "O", A, Bb)
        ctx.count(c, a == b or (a ^ b).bit_length() <= 32 or ((a ^ b) & ((1 << (bits - 64)) - 1)) == 0, "%s-cmp:%d" % (fld, exp))
        expect(rv == exp, sig + "/compare", lambda: "a=%x b=%x got=%d expected=%d" % (a, b, rv, exp))
        expect(eq == (1 if a == b else 0), sig + "/equal", lambda: "a=%x b=%x got=%d" % (a, b, eq))
        if fld == "fq":
            r2 = lib.fn("vf_fq_compare")(lib.A.ptr, lib.B.ptr)
            expect(r2 == exp, "fq_compare/static", lambda: "a=%x b=%x got=%d expected=%d" % (a, b, r2, exp))
    elif op == "flags":
        z, _ = lib.call(f["misc"], 0, 4, "O", A, 0)
        o, _ = lib.call(f["misc"], 0, 5, "O", A, 0)
        ctx.count(c, a in (0, R, 1), "%s-flags" % fld)
        expect(z == (1 if a == 0 else 0), sig + "/is_zero", lambda: "a=%x" % a)
        expect(o == (1 if a == R else 0), sig + "/is_one", lambda: "a=%x" % a)
    elif op == "reduce":
        rv, out = lib.op("%s_reduce" % fld, A)
        got = conv.ib(out)
        ctx.count(c, a >= p or abs(a - p) <= 2, "%s-reduce" % fld + (":ge-p" if a >= p else ""))
        expect(got == a % p, sig + "/value", lambda: "a=%x got=%x" % (a, got))
    elif op == "intomont":
        lib.O.write(A)
        lib.fn(f["misc"])(8, lib.O.ptr, None, None)
        got = conv.ib(lib.O.read(nb))
        exp = a * R % p
        ctx.count(c, a >= p, "%s-intomont" % fld + (":ge-p" if a >= p else ""))
        expect(got < p and got == exp, sig + "/value", lambda: "a=%x got=%x expected=%x" % (a, got, exp))


@st.composite
def bytes_cases(draw, _=None):
    op = draw(st.sampled_from(("fq_read", "fq_write", "fq_hash_reduce", "fr_hash_reduce", "fq_roundtrip")))
    if op in ("fq_read", "fq_hash_reduce"):
        t, v = draw(gens.ints(384, F.Q))
        top = draw(st.integers(0, 7))
        if draw(st.booleans()):
            v = (v & ((1 << 381) - 1)) | (top << 381)
        how = draw(st.integers(0, 3))
        if how == 0:      # in [q, 2^381)
            v = F.Q + (v % ((1 << 381) - F.Q)) | (top << 381)
        return {"op": op, "v": v, "t": t}
    if op == "fr_hash_reduce":
        t, v = draw(gens.ints(256, F.R_ORDER))
        if draw(st.integers(0, 3)) == 0:
            v = (F.R_ORDER + (v % ((1 << 255) - F.R_ORDER))) | (draw(st.integers(0, 1)) << 255)
        return {"op": op, "v": v, "t": t}
    t, v = draw(gens.canon(384, F.Q))
    return {"op": op, "v": v, "t": t}


def check_bytes(ctx, lib, c):
    op, v = c["op"], c["v"]
    q, r = F.Q, F.R_ORDER
    if op == "fq_read":
        buf = v.to_bytes(48, "big")
        lib.A.write(buf)
        lib.O.fill(0xCD, 48)
        lib.fn("vf_fq_read_be", None)(lib.O.ptr, lib.A.ptr)
        got = conv.ib(lib.O.read(48))
        masked = v & ((1 << 381) - 1)
        exp = (masked % q) * F.FQ_R % q
        ctx.count(c, masked >= q or (v >> 381) != 0, "fq-read" + (":ge-q" if masked >= q else (":flags" if v >> 381 else "")))
        expect(got < q and got == exp, "fq_read_big_endian/value", lambda: "bytes=%s got=%x expected=%x" % (buf.hex(), got, exp))
    elif op == "fq_write":
        lib.A.write(conv.bi(v, 384))
        lib.O.fill(0xCD, 48)
        lib.fn("vf_fq_write_be", None)(lib.O.ptr, lib.A.ptr)
        got = lib.O.read(48)
        exp = (v * F.FQ_RINV % q).to_bytes(48, "big")
        ctx.count(c, v in (0, F.FQ_R, q - 1, 1), "fq-write")
        expect(got == exp, "fq_write_big_endian/value", lambda: "raw=%x got=%s expected=%s" % (v, got.hex(), exp.hex()))
    elif op == "fq_roundtrip":
        lib.A.write(conv.bi(v, 384))
        lib.fn("vf_fq_write_be", None)(lib.B.ptr, lib.A.ptr)
        lib.O.fill(0xCD, 48)
        lib.fn("vf_fq_read_be", None)(lib.O.ptr, lib.B.ptr)
        got = conv.ib(lib.O.read(48))
        ctx.count(c, v in (0, F.FQ_R, q - 1, 1), "fq-roundtrip")
        expect(got == v, "fq_big_endian/roundtrip", lambda: "raw=%x got=%x" % (v, got))
    else:
        fld = op[:2]
        f = FIELDS[fld]
        bits, p, mb = f["bits"], f["p"], f["mask_bits"]
        lib.O.write(conv.bi(v, bits))
        rv = lib.fn(f["misc"])(6, lib.O.ptr, None, None)
        got = conv.ib(lib.O.read(bits // 8))
        masked = v & ((1 << mb) - 1)
        exp = masked - p if masked >= p else masked
        ctx.count(c, masked >= p or (v >> mb) != 0, "%s-hash_reduce" % fld + (":ge-p" if masked >= p else ""))
        expect(got == exp and got < p, "%s_hash_reduce/value" % fld, lambda: "in=%x got=%x expected=%x" % (v, got, exp))
        expect(rv == (v >> (bits - 1)) & 1, "%s_hash_reduce/topbit" % fld, lambda: "in=%x got=%d" % (v, rv))


def static_checks(tier, vseed):
    """Constants compared with values derived from the curve parameter."""
    from .. import lib as libmod
    lib = libmod.get("asm")
    exp = {"fq_modulus": F.Q, "fq_R": F.FQ_R, "fq_R2": F.FQ_R2, "fq_inv": F.FQ_INV,
           "fr_modulus": F.R_ORDER, "fr_R": F.FR_R, "fr_R2": F.FR_R2, "fr_inv": F.FR_INV,
           "fq_one": F.FQ_R, "fq_zero": 0, "fq_negative_one": (F.Q - F.FQ_R) % F.Q, "fr_one": F.FR_R, "fr_zero": 0}
    failures, samples = [], []
    for k, v in exp.items():
        got = conv.ib(lib.const(k))
        samples.append("%s=%x" % (k, got))
        if got != v:
            failures.append(("static-constants", "asm", {"t": [k, {"i": hex(got)}]}, "constants/%s" % k, "got %x expected %x" % (got, v)))
    return {"evaluations": len(exp), "classes": {"static-constants": len(exp)}, "samples": {"static-constants": samples[:2]},
            "failures": failures, "nontrivial": [("const-" + k).encode() for k in exp]}


CFG_Q = ("asm",)
CFG_T = ("asm", "asm:base", "p64", "p32")
SUBCHECKS = [
    Sub("fq_binop", binop_cases("fq"), check_binop, 60000, 500000, CFG_Q, CFG_T),
    Sub("fr_binop", binop_cases("fr"), check_binop, 40000, 270000, CFG_Q, CFG_T),
    Sub("fq_mred", mred_cases("fq"), check_mred, 20000, 130000, CFG_Q, CFG_T),
    Sub("fr_mred", mred_cases("fr"), check_mred, 10000, 70000, CFG_Q, CFG_T),
    Sub("fq_unary", unary_cases("fq"), check_unary, 16000, 100000, CFG_Q, CFG_T),
    Sub("fr_unary", unary_cases("fr"), check_unary, 16000, 100000, CFG_Q, CFG_T),
    Sub("bytes", bytes_cases(), check_bytes, 20000, 130000, CFG_Q, CFG_T),
]
