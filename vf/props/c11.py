"""C11 - WKD-IBE: every key from any delegation history is well-formed and decrypts.
(Also hosts the history generator and executor shared by C12-C15.)"""
import ctypes

from hypothesis import strategies as st

from .. import conv, gens, wk as wkmod
from ..ref import curve as C
from ..ref import fields as F
from ..ref import pairing as PR
from ..runner import Sub, Violation, expect
from ..wk import FREE, HIDDEN, Attrs, apply_attrs, fixed_of, free_of

RULE = ("Generated: histories = setup(l in 1..7, signatures on/off, random stream) followed by 1-8 steps from {keygen, "
        "nondelegable_keygen, qualifykey, nondelegable_qualifykey, adjust_nondelegable, resamplekey(further on/off)} over a pool of keys. "
        "Attribute lists are CONSTRUCTED from the parent's model pattern under the documented rules: fixed slots repeated with an equal "
        "value (same integer or the same residue + r), each free slot independently fixed / hidden / left out, hidden slots left out or "
        "listed as hidden, both settings of omitAllFromKeysUnlessPresent, values from {0,1,r-1,r,r+1,2r+d,2^256-1,random}; the b array is "
        "allocated with exactly the documented number of slots (l - len(attrs); parent's l for adjust; key's l for resample) followed "
        "by guard slots that must stay untouched. Oracle: the slot-pattern model + the scheme's pairing equations evaluated with the "
        "library's group operations and pairing (decided by C01/C05/C06): free-slot list == model, e(a0,g) == pairing*e(g3*prod h_i^v_i, "
        "a1), e(b_i,g) == e(h_i,a1), e(bsig,g) == e(hsig,a1), fresh ciphertext for the key's pattern decrypts with the key and the master "
        "key, delegable steps are pure functions of (inputs, stream); every randomised output is fixed exactly by the exponent the step draws first from the caller's random source (a1 == [parent a1 *] g^t for keygen/qualifykey/resamplekey, g1 == g^alpha and msk == g2^alpha for setup, B == g^s and C == (g3*prod h^v)^s for the control encryption; the exponent is obtained by running the library's sampler, decided by C07/C10, on the same stream). Non-trivial = the history contains a hidden slot below a later "
        "fixed or free slot, or a qualification of a key that already has fixed slots, or an adjust step, or a value >= r.")
ASSUMPTIONS = ["library group operations, scalar multiplication and pairing are as decided by C01/C05/C06", "attribute lists are sorted, duplicate-free, indices < l; hidden entries carry id 0 (what the Go wrapper produces)",
               "sign/keygen are given non-null attribute lists"]

R = F.R_ORDER
VALUES = (0, 1, 2, R - 1, R, R + 1, 2 * R + 3, (1 << 256) - 1, (1 << 255) + 5)


@st.composite
def value(draw):
    if draw(st.integers(0, 2)) == 0:
        return draw(st.sampled_from(VALUES))
    return draw(st.integers(1, (1 << 256) - 1))


@st.composite
def build_attrs(draw, pattern, allow_omit_all=True, p_fix=3, p_hide=2, p_leave=3, omit_all_weight=1):
    """Attribute list permitted by the documentation for a key with the given pattern."""
    entries = []
    for i, s in enumerate(pattern):
        if isinstance(s, tuple):
            v = s[1]
            if v + R < (1 << 256) and draw(st.integers(0, 3)) == 0:
                v += R
            entries.append((i, v))
        elif s == HIDDEN:
            if draw(st.booleans()):
                entries.append((i, None))
        else:
            how = draw(st.sampled_from(["fix"] * p_fix + ["hide"] * p_hide + ["leave"] * p_leave))
            if how == "fix":
                entries.append((i, draw(value())))
            elif how == "hide":
                entries.append((i, None))
    omit_all = draw(st.integers(0, 4)) < omit_all_weight if allow_omit_all else False
    return entries, omit_all


@st.composite
def histories(draw, max_l=7, max_steps=8, ops=("keygen", "nd_keygen", "qualify", "nd_qualify", "adjust", "resample"), signatures=None, force_last=None):
    """force_last: tuple of ops; one extra final key-producing step is appended whose list hides slots often (explicitly or by omit-all)."""
    l = draw(st.integers(1, max_l))
    sigs = draw(st.booleans()) if signatures is None else signatures
    h = {"l": l, "sigs": sigs, "stream": draw(st.binary(min_size=0, max_size=48)), "seed": draw(st.integers(0, 2**32)), "steps": []}
    keys = []        # model entries: dict(pattern, ndq=(parent, entries, omit_all) or None)
    root = [FREE] * l
    nsteps = draw(st.integers(1, max_steps))
    for stepno in range(nsteps + (1 if force_last else 0)):
        forced = bool(force_last) and stepno == nsteps
        feasible = [o for o in (force_last if forced else ops) if o in ("keygen", "nd_keygen") or keys]
        if "adjust" in feasible and not any(k["ndq"] for k in keys):
            feasible.remove("adjust")
        op = draw(st.sampled_from(feasible))
        step = {"op": op, "stream": draw(st.binary(min_size=0, max_size=40)), "seed": draw(st.integers(0, 2**32))}
        bias = dict(p_fix=2, p_hide=3, p_leave=3, omit_all_weight=2) if forced else {}
        if op in ("keygen", "nd_keygen"):
            entries, oa = draw(build_attrs(root, **bias))
            step.update(attrs=entries, omit_all=oa)
            keys.append({"pattern": apply_attrs(root, entries, oa), "ndq": None})
        elif op in ("qualify", "nd_qualify"):
            p = draw(st.integers(0, len(keys) - 1))
            entries, oa = draw(build_attrs(keys[p]["pattern"], **bias))
            step.update(parent=p, attrs=entries, omit_all=oa)
            keys.append({"pattern": apply_attrs(keys[p]["pattern"], entries, oa), "ndq": (p, entries, oa) if op == "nd_qualify" else None})
        elif op == "adjust":
            cands = [i for i, k in enumerate(keys) if k["ndq"]]
            ki = draw(st.sampled_from(cands))
            p, frm, oa_from = keys[ki]["ndq"]
            # the target list is another list permitted for the same parent; adjust has no omit-all notion of its own:
            # both lists are interpreted with the flag off, so only lists generated with the flag off are adjustable
            entries, _ = draw(build_attrs(keys[p]["pattern"], allow_omit_all=False))
            if frm and draw(st.integers(0, 2)) == 0:
                # the target keeps the first m entries of the current list (m = all of them: the same list again) and chooses afresh
                # behind them: lists that share a prefix are what a caller extends or shortens in place (two views of one array)
                m = draw(st.integers(1, len(frm)))
                entries = [tuple(e) for e in frm[:m]] + [e for e in entries if e[0] > frm[m - 1][0]]
            step.update(key=ki, parent=p, frm=frm, to=entries, from_omit_all=oa_from)
            if oa_from:
                # documented domain: adjust converts between two qualifications of the parent; with omit-all the free-slot set is not
                # a function of the lists alone, so such keys are not adjusted (step becomes a no-op marker)
                step["op"] = "noop"
            else:
                keys[ki] = {"pattern": apply_attrs(keys[p]["pattern"], entries, False), "ndq": (p, entries, False)}
                for other in keys:       # keys derived non-delegably from the adjusted key lose their relation to it
                    if other["ndq"] and other["ndq"][0] == ki:
                        other["ndq"] = None
        else:
            ki = draw(st.integers(0, len(keys) - 1))
            further = draw(st.booleans())
            step.update(key=ki, further=further)
            pat = list(keys[ki]["pattern"])
            if not further:
                pat = [HIDDEN if s == FREE else s for s in pat]
            keys.append({"pattern": pat, "ndq": None})
        h["steps"].append(step)
    return h


def nontrivial_history(h):
    for s in h["steps"]:
        ent = s.get("attrs") or s.get("to") or []
        idxs = [i for i, _ in ent]
        hidden = [i for i, v in ent if v is None]
        if hidden and any(j > min(hidden) for j in idxs):
            return True
        if hidden and min(hidden) < h["l"] - 1:
            return True
        if s["op"] in ("adjust",):
            return True
        if s["op"] in ("qualify", "nd_qualify") and any(v is not None for _, v in ent):
            return True
        if any(v is not None and v >= R for _, v in ent):
            return True
    return False


class Exec:
    """Runs a history against the library, keeping the model alongside. Raises Violation."""

    def __init__(self, ctx, lib, h, check_level=2):
        self.ctx, self.lib, self.h = ctx, lib, h
        self.W = wkmod.WK(lib)
        self.level = check_level
        self.keys = []       # dict(handle, pattern, ndq, delegable)
        self.params = self.msk = None
        self.pv = None

    def close(self):
        self.W.close()

    def run(self):
        h, W = self.h, self.W
        alpha = W.sampled_exponent(h["stream"], h["seed"])
        self.params, self.msk = W.setup(h["l"], h["sigs"], h["stream"], h["seed"])
        expect(W.d.vf_wk_params_guard(self.params) == 0, "setup/overrun", "setup wrote beyond params.h[l]")
        self.pv = W.params_view(self.params)
        self.check_setup()
        if self.level >= 1:
            # the master exponent is the value drawn from the caller's random source: g1 = g^alpha, msk = g2^alpha
            expect(W.g2_eq(self.pv["g1"], W.g2_mul(self.pv["g"], alpha)), "setup/randomiser", "params.g1 != g^alpha for the alpha drawn first from the random source")
            expect(W.g1_eq(W.blob_bytes(self.msk, 1)[:W.g1sz], W.g1_mul(self.pv["g2"], alpha)), "setup/randomiser", "master key != g2^alpha for the alpha drawn first from the random source")
        root = [FREE] * h["l"]
        for si, s in enumerate(h["steps"]):
            op = s["op"]
            # the exponent a randomised step draws first from its stream (the random source is left re-armed with the same stream)
            self.drawn = W.sampled_exponent(s["stream"], s["seed"])
            self.parent_a1 = None
            if op in ("qualify",):
                self.parent_a1 = W.sk_view(self.keys[s["parent"]]["h"], max_slots=0)["a1"]
            elif op == "resample":
                self.parent_a1 = W.sk_view(self.keys[s["key"]]["h"], max_slots=0)["a1"]
            if op in ("keygen", "nd_keygen"):
                attrs = Attrs(s["attrs"], s["omit_all"])
                sk = W.keygen(self.params, self.msk, attrs, h["l"] - len(attrs), nondelegable=(op == "nd_keygen"))
                self.keys.append({"h": sk, "pattern": apply_attrs(root, s["attrs"], s["omit_all"]), "cap": h["l"] - len(attrs)})
                self.check_key(len(self.keys) - 1, "nondelegable_keygen" if op == "nd_keygen" else "keygen", s)
            elif op in ("qualify", "nd_qualify"):
                par = self.keys[s["parent"]]
                attrs = Attrs(s["attrs"], s["omit_all"])
                sk = W.qualify(self.params, par["h"], attrs, h["l"] - len(attrs), nondelegable=(op == "nd_qualify"))
                self.keys.append({"h": sk, "pattern": apply_attrs(par["pattern"], s["attrs"], s["omit_all"]), "cap": h["l"] - len(attrs)})
                self.check_key(len(self.keys) - 1, "nondelegable_qualifykey" if op == "nd_qualify" else "qualifykey", s)
            elif op == "adjust":
                par = self.keys[s["parent"]]
                k = self.keys[s["key"]]
                pl = W.get(2, par["h"], 2)
                nk = self.clone_sk(k["h"], pl)
                W.adjust_nd(nk, par["h"], Attrs(s["frm"]), Attrs(s["to"]))
                self.keys[s["key"]] = {"h": nk, "pattern": apply_attrs(par["pattern"], s["to"], False), "cap": pl}
                self.check_key(s["key"], "adjust_nondelegable", s)
            elif op == "resample":
                k = self.keys[s["key"]]
                pre = W.precompute(self.params, Attrs(fixed_of(k["pattern"])))
                kl = W.get(2, k["h"], 2)
                cap = kl if s["further"] else 0
                sk = W.resample(self.params, pre, k["h"], s["further"], cap)
                pat = list(k["pattern"]) if s["further"] else [HIDDEN if x == FREE else x for x in k["pattern"]]
                self.keys.append({"h": sk, "pattern": pat, "cap": cap})
                self.check_key(len(self.keys) - 1, "resamplekey", s)

    def clone_sk(self, sk, nslots):
        W = self.W
        v = W.sk_view(sk)
        nk = W.sk_new(max(nslots, v["l"]))
        d = W.d
        for f, key in ((0, "a0"), (1, "a1"), (4, "bsig")):
            d.vf_wk_set(2, nk, f, 0, v[key], 0)
        d.vf_wk_set(2, nk, 2, 0, None, v["l"])
        d.vf_wk_set(2, nk, 3, 0, None, 1 if v["signatures"] else 0)
        for i in range(v["l"]):
            d.vf_wk_set(2, nk, 5, i, None, v["idx"][i])
            d.vf_wk_set(2, nk, 6, i, v["b"][i], 0)
        return nk

    def check_setup(self):
        W, pv, h = self.W, self.pv, self.h
        expect(pv["l"] == h["l"] and pv["signatures"] == h["sigs"], "setup/fields", "params.l / params.signatures not as requested")
        e = W.pairing(pv["g2"], pv["g1"])
        expect(e == pv["pairing"], "setup/pairing", "params.pairing != e(g2, g1)")
        mskimg = W.blob_bytes(self.msk, 1)[:W.g1sz]
        expect(W.pairing(mskimg, pv["g"]) == pv["pairing"], "setup/masterkey", "e(msk, g) != params.pairing")
        for name in ("g2", "g3"):
            expect(conv.b_g1_proj(pv[name]) is not None, "setup/identity", name + " is the identity")
        for name in ("g", "g1"):
            expect(conv.b_g2_proj(pv[name]) is not None, "setup/identity", name + " is the identity")
        expect((conv.b_g1_proj(pv["hsig"]) is not None) == h["sigs"], "setup/hsig", "hsig identity <=> signatures off")
        for i, hi in enumerate(pv["h"]):
            expect(conv.b_g1_proj(hi) is not None, "setup/identity", "h[%d] is the identity" % i)
        if self.level >= 3:
            for name in ("g2", "g3"):
                expect(C.mul(conv.b_g1_proj(pv[name]), R, C.G1Ops) is None, "setup/subgroup", name)
            expect(C.mul(conv.b_g2_proj(pv["g"]), R, C.G2Ops) is None, "setup/subgroup", "g")

    def check_key(self, ki, opname, step):
        W, pv, h = self.W, self.pv, self.h
        k = self.keys[ki]
        pat = k["pattern"]
        what = lambda: "%s step=%r pattern=%r" % (opname, {a: b for a, b in step.items() if a not in ("stream", "seed")}, pat)
        has_hidden = any(v is None for _, v in (step.get("attrs") or step.get("to") or []))
        tag = "/hidden-attribute" if has_hidden else ""
        expect(W.sk_guard(k["h"]) == 0, "%s%s/overrun" % (opname, tag), lambda: "wrote more free slots than the documented allocation (%d): %s" % (k["cap"], what()))
        v = W.sk_view(k["h"], max_slots=k["cap"])
        free = free_of(pat)
        expect(v["l"] == len(free) and v["idx"] == free, "%s%s/free-slots" % (opname, tag), lambda: "free slots %r (l=%d), model %r: %s" % (v["idx"], v["l"], free, what()))
        expect(v["signatures"] == h["sigs"], "%s/signatures-flag" % opname, what)
        # (ii) e(a0, g) == pairing * e(g3 * prod h^v, a1)
        prod = W.attr_product(pv, fixed_of(pat))
        lhs = W.pairing(v["a0"], pv["g"])
        rhs = W.gt_mul(pv["pairing"], W.pairing(prod, v["a1"]))
        expect(lhs == rhs, "%s%s/a0-equation" % (opname, tag), lambda: "e(a0,g) != pairing*e(g3*prod h^v, a1): %s" % what())
        # (iii) delegation components
        if self.level >= 2:
            for j, i in enumerate(free):
                expect(W.pairing(v["b"][j], pv["g"]) == W.pairing(pv["h"][i], v["a1"]), "%s%s/b-equation" % (opname, tag), lambda: "slot %d: %s" % (i, what()))
            if h["sigs"]:
                expect(W.pairing(v["bsig"], pv["g"]) == W.pairing(pv["hsig"], v["a1"]), "%s/bsig-equation" % opname, what)
            else:
                expect(conv.b_g1_proj(v["bsig"]) is None, "%s/bsig-without-signatures" % opname, what)
        # (iii') the key is randomised by exactly the exponent drawn from the caller's random source: a1 = [parent a1 +] g^t.
        # Together with (ii) and (iii) this fixes every component; a key whose randomiser is missing, constant, truncated or taken
        # from uninitialised memory satisfies the equations above but not this one.
        if self.level >= 1 and opname in ("keygen", "qualifykey", "resamplekey"):
            exp_a1 = W.g2_mul(pv["g"], self.drawn)
            if self.parent_a1 is not None:
                exp_a1 = W.g2_add(exp_a1, self.parent_a1)
            expect(W.g2_eq(v["a1"], exp_a1), "%s/randomiser" % opname, lambda: "a1 is not [parent a1 +] g^t for the t drawn first from the random source (t=%x): %s" % (self.drawn, what()))
            self.ctx.event("randomiser-exact/" + opname)
        # (iv) decryption of a fresh ciphertext for exactly this pattern
        msg = conv.fq12_b(F.flat_to_tower(PR.gt_pow_gen(step["seed"] + 7)))
        s_enc = W.sampled_exponent(step["stream"][::-1], step["seed"] ^ 0x55)
        ct = W.encrypt(msg, self.params, Attrs(fixed_of(pat)))
        if self.level >= 1:
            # the ciphertext is bound to exactly the exponent drawn from the caller's random source: B = g^s, C = (g3 prod h^v)^s
            cimg = W.blob_bytes(ct, 3)
            expect(W.g2_eq(cimg[576:576 + W.g2sz], W.g2_mul(pv["g"], s_enc)), "encrypt/randomiser", lambda: "ciphertext.b != g^s for the s drawn first from the random source: %s" % what())
            expect(W.g1_eq(cimg[576 + W.g2sz:576 + W.g2sz + W.g1sz], W.g1_mul(prod, s_enc)), "encrypt/randomiser", lambda: "ciphertext.c != (g3*prod h^v)^s for the s drawn first from the random source: %s" % what())
        expect(W.decrypt(ct, sk=k["h"]) == msg, "%s%s/decrypt" % (opname, tag), lambda: "key does not decrypt a ciphertext for its own pattern: %s" % what())
        expect(W.decrypt(ct, msk=self.msk) == msg, "decrypt_master/value", what)
        k["view"] = v


@st.composite
def cases(draw):
    return draw(histories())


def check(ctx, lib, h):
    ex = Exec(ctx, lib, h)
    try:
        ops = [s["op"] for s in h["steps"]]
        ctx.count(h, nontrivial_history(h), "history-l%d-%dsteps" % (h["l"], len(ops)))
        for o in ops:
            ctx.event("op/" + o)
        ex.run()
        # purity: re-running the last delegable step with the same stream gives the same key bytes
        last = h["steps"][-1]
        if last["op"] in ("keygen", "qualify") and len(ex.keys) >= 1:
            ex2 = Exec(ctx, lib, h, check_level=0)
            try:
                ex2.run_quiet()
                v1 = ex.keys[-1]["view"]
                v2 = ex2.W.sk_view(ex2.keys[-1]["h"], max_slots=ex2.keys[-1]["cap"])
                expect(ex.W.g1_eq(v1["a0"], v2["a0"]) and ex.W.g2_eq(v1["a1"], v2["a1"]), "%s/impure" % last["op"], "same inputs and stream gave a different key")
            finally:
                ex2.close()
    finally:
        ex.close()


def _run_quiet(self):
    """Replays the history without predicates (used for determinism comparisons)."""
    saved = self.check_key, self.check_setup
    self.check_key = lambda *a, **k: None
    self.check_setup = lambda *a, **k: None
    try:
        self.run()
    finally:
        self.check_key, self.check_setup = saved


Exec.run_quiet = _run_quiet


def prebuild(tier):
    PR.gt_pow_gen(3)


SUBCHECKS = [
    Sub("histories", cases(), check, 4000, 60000, ("asm",), ("asm", "p32")),
]
