"""C14 - WKD-IBE incremental and precomputed paths equal recomputation from scratch."""
import ctypes

from hypothesis import strategies as st

from .. import conv, gens
from ..ref import fields as F
from ..ref import pairing as PR
from ..runner import Sub, expect
from ..wk import FREE, HIDDEN, Attrs, apply_attrs, fixed_of, free_of
from . import c11

RULE = ("Generated: (a) chains of 2-5 attribute lists over l <= 8 slots (every merge ordering arises: insert before/after/between, "
        "delete, value up/down incl. wrap-around, empty lists, hidden entries, ids below and above r) for adjust_precomputed; (b) a "
        "delegation history, a parent key of it and a chain of lists permitted for that parent for adjust_nondelegable; (c) "
        "encrypt/sign/verify through precomputed values vs. their direct forms. Oracle: adjust_precomputed(precompute(A),A->B) == "
        "precompute(B) as group elements after every link; adjust_nondelegable(ndq(parent,A),A->B) equals ndq(parent,B) component for "
        "component (a0, a1, bsig, free-slot indices and elements); ciphertexts made through a precomputed value decrypt, signatures made "
        "either way verify either way. Non-trivial = lists that differ (any insertion/deletion/value change), or hidden entries, or ids "
        ">= r.")
ASSUMPTIONS = c11.ASSUMPTIONS + ["adjust_nondelegable is given lists interpreted without the omit-all flag (it has no access to it)"]

R = F.R_ORDER


@st.composite
def free_list(draw, l):
    """An arbitrary sorted attribute list over l slots (no parent constraints)."""
    ent = []
    for i in range(l):
        how = draw(st.integers(0, 5))
        if how <= 1:
            ent.append((i, draw(c11.value())))
        elif how == 2:
            ent.append((i, None))
    return ent


@st.composite
def mutate_list(draw, l, base):
    """A list related to base by a few edits (so that equal / up / down branches all occur)."""
    d = dict(base)
    for _ in range(draw(st.integers(0, 3))):
        i = draw(st.integers(0, l - 1))
        how = draw(st.integers(0, 4))
        if how == 0:
            d.pop(i, None)
        elif how == 1:
            d[i] = draw(c11.value())
        elif how == 2 and d.get(i) is not None:
            d[i] = (d[i] + draw(st.sampled_from((1, -1, R, -R, 1 << 255, -(1 << 254))))) % (1 << 256)
        elif how == 3:
            d[i] = None
    return sorted(d.items())


@st.composite
def pre_cases(draw):
    l = draw(st.integers(1, 8))
    lists = [draw(free_list(l))]
    for _ in range(draw(st.integers(1, 4))):
        lists.append(draw(mutate_list(l, lists[-1])) if draw(st.booleans()) else draw(free_list(l)))
    return {"l": l, "lists": lists, "stream": draw(st.binary(min_size=0, max_size=32)), "seed": draw(st.integers(0, 2**32)),
            "use": draw(st.sampled_from(("none", "encrypt", "sign"))), "msg": draw(gens.scalars(256))[1],
            # sign: which valued entries of the final list carry the omit-from-keys flag / are left free in the signing key
            "flag": draw(st.integers(0, 255)) if draw(st.booleans()) else 0, "keep": draw(st.integers(0, 255)) if draw(st.booleans()) else 255}


def check_pre(ctx, lib, c):
    from .. import wk as wkmod
    W = wkmod.WK(lib)
    try:
        l = c["l"]
        params, msk = W.setup(l, True, c["stream"], c["seed"])
        lists = [Attrs(x) for x in c["lists"]]
        pre = W.precompute(params, lists[0])
        changed = any(c["lists"][i] != c["lists"][i + 1] for i in range(len(lists) - 1))
        big = any(v is not None and v >= R for x in c["lists"] for _, v in x)
        hid = any(v is None for x in c["lists"] for _, v in x)
        ctx.count(c, changed or big or hid, "adjust_precomputed-chain%d%s%s" % (len(lists), ":ids>=r" if big else "", ":hidden" if hid else ""))
        g1sz = W.g1sz
        for i in range(1, len(lists)):
            W.adjust_pre(pre, params, lists[i - 1], lists[i])
            direct = W.precompute(params, lists[i])
            a, b = W.blob_bytes(pre, 5)[:g1sz], W.blob_bytes(direct, 5)[:g1sz]
            expect(W.g1_eq(a, b), "adjust_precomputed/value" + ("/ids>=r" if big else ""), lambda: "from=%s to=%s" % (lists[i - 1].describe(), lists[i].describe()))
        final = lists[-1]
        if c["use"] == "encrypt":
            msg = conv.fq12_b(F.flat_to_tower(PR.gt_pow_gen(c["seed"] + 3)))
            ct = W.encrypt(msg, params, pre=pre)
            # a key for exactly this list (hidden entries carry id 0 and contribute nothing)
            sk = W.keygen(params, msk, final, l - len(final))
            expect(W.decrypt(ct, sk=sk) == msg, "encrypt_precomputed/decrypt", lambda: "list=%s" % final.describe())
            expect(W.decrypt(ct, msk=msk) == msg, "encrypt_precomputed/decrypt_master", lambda: "list=%s" % final.describe())
        elif c["use"] == "sign":
            # the signing key fixes a subset of the list's valued entries; the others are free in the key and are filled by sign from
            # the key's delegation components. Entries may carry the omit-from-keys flag with a value: the flag concerns key derivation
            # only, signing and verification use every listed value (flagged entries are never handed to keygen with a value).
            fl, keep = c.get("flag", 0), c.get("keep", 255)
            ent = c["lists"][-1]
            keylist = Attrs([(i, v) for i, v in ent if v is None or ((keep >> i & 1) and not (fl >> i & 1))])
            final = Attrs([(i, v, (v is None) or bool(fl >> i & 1)) for i, v in ent])
            if any(v is not None and not (keep >> i & 1 and not fl >> i & 1) for i, v in ent):
                ctx.event("sign-fills-free-slot" + ("-flagged" if any(v is not None and (fl >> i & 1) for i, v in ent) else ""))
            sk = W.keygen(params, msk, keylist, l - len(keylist))
            m = c["msg"]
            s1 = W.sign(params, sk, final, m)
            s2 = W.sign(params, sk, final, m, pre=pre)
            for name, s in (("sign", s1), ("sign_precomputed", s2)):
                expect(W.verify(params, final, s, m), "%s/verify" % name, lambda: "list=%s" % final.describe())
                expect(W.verify(params, None, s, m, pre=pre), "%s/verify_precomputed" % name, lambda: "list=%s" % final.describe())
                expect(not W.verify(params, None, s, (m + 1) % (1 << 256), pre=pre), "%s/verify_precomputed-accepts-other-message" % name, "")
    finally:
        W.close()


@st.composite
def nd_cases(draw):
    h = draw(c11.histories(max_steps=4, ops=("keygen", "nd_keygen", "qualify", "nd_qualify", "resample")))
    return {"h": h, "parent": draw(st.integers(0, 7)), "n": draw(st.integers(1, 4)), "draws": draw(st.lists(st.integers(0, 2**30), min_size=80, max_size=80)),
            "vals": [draw(c11.value()) for _ in range(40)]}


def _list_for(pattern, draws, vals, pos):
    """Deterministic list permitted for a parent with this pattern, driven by pre-drawn numbers."""
    ent = []
    for i, s in enumerate(pattern):
        d = draws[(pos + i) % len(draws)]
        if isinstance(s, tuple):
            v = s[1]
            if d % 4 == 0 and v + R < (1 << 256):
                v += R
            ent.append((i, v))
        elif s == HIDDEN:
            if d % 2:
                ent.append((i, None))
        else:
            m = d % 8
            if m <= 2:
                ent.append((i, vals[(pos + i) % len(vals)]))
            elif m <= 4:
                ent.append((i, None))
    return ent


def check_nd(ctx, lib, c):
    h = c["h"]
    ex = c11.Exec(ctx, lib, h, check_level=0)
    try:
        ex.run_quiet()
        W = ex.W
        par = ex.keys[c["parent"] % len(ex.keys)]
        pat, l = par["pattern"], h["l"]
        lists = [_list_for(pat, c["draws"], c["vals"], 8 * j) for j in range(c["n"] + 1)]
        pl = W.get(2, par["h"], 2)
        cur = W.qualify(ex.params, par["h"], Attrs(lists[0]), l - len(lists[0]), nondelegable=True)
        cur = ex.clone_sk(cur, pl)
        hid = any(v is None for x in lists for _, v in x)
        big = any(v is not None and v >= R for x in lists for _, v in x)
        ctx.count(c, any(lists[i] != lists[i + 1] for i in range(len(lists) - 1)), "adjust_nondelegable-chain%d%s%s" % (len(lists), ":hidden" if hid else "", ":ids>=r" if big else ""))
        for j in range(1, len(lists)):
            W.adjust_nd(cur, par["h"], Attrs(lists[j - 1]), Attrs(lists[j]))
            expect(W.sk_guard(cur) == 0, "adjust_nondelegable/overrun", "wrote beyond parent.l slots")
            direct = W.qualify(ex.params, par["h"], Attrs(lists[j]), l - len(lists[j]), nondelegable=True)
            va, vb = W.sk_view(cur, max_slots=pl), W.sk_view(direct, max_slots=l - len(lists[j]))
            det = lambda: "parent pattern=%r from=%r to=%r adjusted idx=%r direct idx=%r" % (pat, lists[j - 1], lists[j], va["idx"], vb["idx"])
            tag = ("/hidden" if hid else "") + ("/ids>=r" if big else "")
            expect(va["l"] == vb["l"] and va["idx"] == vb["idx"], "adjust_nondelegable/free-slots" + tag, det)
            expect(W.g1_eq(va["a0"], vb["a0"]), "adjust_nondelegable/a0" + tag, det)
            expect(W.g2_eq(va["a1"], vb["a1"]), "adjust_nondelegable/a1", det)
            expect(all(W.g1_eq(x, y) for x, y in zip(va["b"], vb["b"])), "adjust_nondelegable/b" + tag, det)
    finally:
        ex.close()


def prebuild(tier):
    PR.gt_pow_gen(3)


SUBCHECKS = [
    Sub("precomputed", pre_cases(), check_pre, 8000, 100000, ("asm",), ("asm", "p32")),
    Sub("nondelegable", nd_cases(), check_nd, 8000, 100000, ("asm",), ("asm", "p32")),
]
