"""C16 - LQ-IBE: decryption re-derives the encryption key, bound to the identity."""
import ctypes

from hypothesis import strategies as st

from .. import conv, gens
from ..ref import curve as C
from ..ref import fields as F
from ..ref import pairing as PR
from ..runner import Sub, expect
from . import c05, c09

RULE = ("Generated: 48-byte identity hashes (boundary integers incl. values >= q, the all-zero hash), master scalars from the boundary "
        "mixture installed through masterkey_unmarshal (so values >= r and >= 2^255 occur) or produced by setup from a random stream, "
        "parameters P = t*G2 in any Jacobian representative with sP = [s]P, output lengths from {0,1,16,32,255}, random streams for "
        "encryption; negatives: another identity, another master key, the ciphertext shifted by the generator. Oracle: master scalar of setup == the exponent drawn from the stream, ciphertext == [r]P for the drawn r; the recorded "
        "hash_fill inputs of encrypt and decrypt are byte-identical and equal compressed(Q_id) || compressed(rP) || bytes(e(sk, rP)) "
        "assembled from the library's public outputs with the pairing evaluated by the library (C01) and, on a drawn subset, by the "
        "reference; sk == [s mod r] Q_id by the reference; symmetric outputs equal and exactly the requested length is written; negatives "
        "give different hashed bytes. Non-trivial = s >= r, or hash >= q / zero, or output length 0/255, or a negative probe.")
ASSUMPTIONS = ["the exponent a randomised step uses is the one PowersOfX::random (decided by C07/C10) draws first from the same stream", "reference group law; library pairing as decided by C01", "hash_fill is the recording callback of the shim (deterministic function of its input)"]

R, Q = F.R_ORDER, F.Q


@st.composite
def cases(draw):
    how = draw(st.integers(0, 5))
    hv = draw(gens.ints(384, Q))[1]
    if how == 0:
        hv = 0
    s = draw(gens.scalars(256))[1]
    # second identity for the negative probes: independent, or differing from the first only in low-order bytes / by a small amount
    h2 = draw(gens.ints(384, Q))[1]
    rel = draw(st.integers(0, 3))
    if rel == 0:
        h2 = hv ^ (1 << draw(st.integers(0, 255)))
    elif rel == 1:
        h2 = (hv + draw(st.integers(1, 40))) % (1 << 384)
    return {"hash": hv, "s": s, "via": draw(st.sampled_from(("unmarshal", "unmarshal", "setup"))), "t": draw(st.integers(1, R - 1)), "z": draw(c05.zval(2))[1],
            "len": draw(st.sampled_from((0, 1, 16, 32, 255))), "stream": draw(st.binary(min_size=0, max_size=48)), "seed": draw(st.integers(0, 2**32)),
            "neg": draw(st.sampled_from(("none", "none", "other_id", "other_msk", "ct_shift"))), "hash2": h2, "s2": draw(gens.scalars(256))[1],
            "full": draw(st.integers(0, 15)) == 0, "cpp": draw(st.booleans())}


def check(ctx, lib, c):
    d = lib.dll
    for n in ("vf_lq_sizeof", "vf_lq_unmarshal"):
        getattr(d, n).restype = ctypes.c_long
    for n in ("vf_lq_setup", "vf_lq_id", "vf_lq_keygen", "vf_lq_encrypt", "vf_lq_decrypt", "vf_lq_marshal"):
        getattr(d, n).restype = None
    d.vf_set_use_cpp(1 if c["cpp"] else 0)
    try:
        _check(ctx, lib, c, d)
    finally:
        d.vf_set_use_cpp(0)


def _check(ctx, lib, c, d):
    g1a, g2a, g2sz = lib.sizeof("G1Affine"), lib.sizeof("G2Affine"), lib.sizeof("G2")
    S = lambda n: ctypes.create_string_buffer(n + 64)

    def aligned(buf):
        return ctypes.c_void_p((ctypes.addressof(buf) + 63) & ~63)
    raw = {k: S(sz) for k, sz in (("params", 2 * g2sz), ("msk", 32), ("id", g1a), ("sk", g1a), ("ct", g2a), ("id2", g1a), ("sk2", g1a), ("msk2", 32), ("hash", 48))}
    P = {k: aligned(v) for k, v in raw.items()}
    def drawn(stream, seed):
        # the exponent the decomposed-exponent sampler (decided by C07/C10) draws first from this stream; the source is re-armed
        lib.set_random(stream, seed)
        lib.B.fill(0xCD, 32)
        lib.fn("vf_px_random", None)(lib.O.ptr, lib.B.ptr)
        y = conv.ib(lib.B.read(32))
        lib.set_random(stream, seed)
        return y
    s_drawn = drawn(c["stream"], c["seed"])
    if c["via"] == "setup":
        d.vf_lq_setup(P["params"], P["msk"])
        s = conv.ib(ctypes.string_at(P["msk"], 32))
        expect(s == s_drawn, "lqibe_setup/randomiser", lambda: "master scalar %x is not the value drawn first from the random source (%x)" % (s, s_drawn))
        pimg = ctypes.string_at(P["params"], 2 * g2sz)
        Pp, sP = conv.b_g2_proj(pimg[:g2sz]), conv.b_g2_proj(pimg[g2sz:])
        expect(s < R, "lqibe_setup/msk-range", lambda: "master scalar %x >= r" % s)
        expect(Pp is not None and C.mul(Pp, s, C.G2Ops) == sP, "lqibe_setup/sp", "params.sp != [s]params.p")
    else:
        s = c["s"]
        lib.A.write(conv.bi(s, 256))
        ok = d.vf_lq_unmarshal(2, P["msk"], lib.A.ptr, 1, 1)
        expect(ok != 0 and conv.ib(ctypes.string_at(P["msk"], 32)) % R == s % R, "lqibe_masterkey_unmarshal/value", lambda: "scalar %x is a different residue mod r after unmarshal" % s)
        Pp = C.gen_mul(2, c["t"])
        sP = C.gen_mul(2, c["t"] * s)
        ctypes.memmove(P["params"], conv.g2_proj_b(Pp, tuple(c["z"])) + conv.g2_proj_b(sP, (1, 0)), 2 * g2sz)
    hv = c["hash"]
    ctypes.memmove(P["hash"], hv.to_bytes(48, "big"), 48)
    d.vf_lq_id(P["id"], P["hash"])
    Qid = conv.b_g1_aff(lib, ctypes.string_at(P["id"], g1a))
    d.vf_lq_keygen(P["sk"], P["msk"], P["id"])
    sk = conv.b_g1_aff(lib, ctypes.string_at(P["sk"], g1a))
    big = s >= R
    zero_h = (hv & c09.M381) % Q == 0
    nontriv = big or zero_h or (hv & c09.M381) >= Q or c["len"] in (0, 255) or c["neg"] != "none"
    ctx.count(c, nontriv, "lq-%s-%s%s%s" % (c["via"], c["neg"], ":s>=r" if big else "", ":len%d" % c["len"]))
    expect(sk == C.mul(Qid, s % R, C.G1Ops), "lqibe_keygen/value", lambda: "sk != [s mod r]Q_id for s=%x hash=%x" % (s, hv))
    # encrypt
    n = c["len"]
    sym1, sym2 = S(n + 32), S(n + 32)
    ctypes.memset(sym1, 0xEE, n + 96)
    ctypes.memset(sym2, 0xEE, n + 96)
    a1, a2 = aligned(sym1), aligned(sym2)
    off1 = a1.value - ctypes.addressof(sym1)
    off2 = a2.value - ctypes.addressof(sym2)
    r_drawn = drawn(c["stream"][::-1] + b"e", c["seed"] ^ 0x77)
    d.vf_hash_calls.restype = ctypes.c_uint64
    calls0 = d.vf_hash_calls()
    d.vf_lq_encrypt(P["ct"], a1, ctypes.c_size_t(n), P["params"], P["id"])
    expect(d.vf_hash_calls() == calls0 + 1, "lqibe_encrypt/hash-calls", lambda: "encrypt called the hash function %d times for length %d (exactly once expected)" % (d.vf_hash_calls() - calls0, n))
    h_enc = lib.hash_last()
    out1 = sym1.raw[off1:off1 + n + 32]
    ctimg = ctypes.string_at(P["ct"], g2a)
    rp = conv.b_g2_aff(lib, ctimg)
    # the ciphertext is [r]P for exactly the r drawn from the caller's random source (a missing, constant, truncated or uninitialised
    # encryption exponent still decrypts consistently, but is not this point)
    expect(rp == C.mul(Pp, r_drawn, C.G2Ops), "lqibe_encrypt/randomiser", lambda: "ciphertext != [r]P for the r drawn first from the random source (r=%x)" % r_drawn)
    # expected hash input from public values
    qc = c09.lib_encode(lib, 1, Qid, True)[0]
    rpc = c09.lib_encode(lib, 2, rp, True)[0]
    f = getattr(lib.dll, "embedded_pairing_bls12_381_pairing")
    f.restype = None
    lib.A.write(c05.aff_b(lib, 1, sk, (0, 1)))
    lib.B.write(ctimg)
    f(lib.O.ptr, lib.A.ptr, lib.B.ptr)
    e_img = lib.O.read(576)
    lib.A.write(e_img)
    lib.fn("vf_tower_be", None)(12, 0, lib.O.ptr, lib.A.ptr)
    gt_bytes = lib.O.read(576)
    exp_hash = qc + rpc + gt_bytes
    expect(h_enc == exp_hash, "lqibe_encrypt/hash-input", lambda: "hash_fill input of encrypt is not compressed(Q)||compressed(rP)||bytes(e(Q,sP)^r) (s=%x hash=%x)" % (s, hv))
    expect(out1[n:] == b"\xEE" * 32, "lqibe_encrypt/symmetric-overrun", "encrypt wrote beyond symmetric_length bytes")
    if c["full"] and sk is not None and rp is not None:
        ref = PR.pairing(sk, rp)
        expect(F.tower_to_flat(conv.b_fq12(e_img)) == ref, "lqibe/pairing-vs-reference", "library pairing of (sk, rP) differs from the reference")
    # decrypt (possibly with a wrong key / identity / ciphertext)
    neg = c["neg"]
    use_sk, use_id, use_ct = P["sk"], P["id"], P["ct"]
    if neg == "other_id":
        ctypes.memmove(P["hash"], c["hash2"].to_bytes(48, "big"), 48)
        d.vf_lq_id(P["id2"], P["hash"])
        d.vf_lq_keygen(P["sk2"], P["msk"], P["id2"])
        use_sk, use_id = P["sk2"], P["id2"]
        Qid2 = conv.b_g1_aff(lib, ctypes.string_at(P["id2"], g1a))
        differs = Qid2 != Qid
        # independent expectation: hashes whose try-and-increment x differ give different identity points (unless cofactor clearing
        # sends both to O); a derivation that remembers an earlier call's result would hand out the same point
        from . import c10
        x1 = c10.first_point(1, (hv & c09.M381) % Q)[0]
        x2 = c10.first_point(1, (c["hash2"] & c09.M381) % Q)[0]
        if x1 != x2 and Qid is not None:
            expect(differs, "lqibe_compute_id/same-point-for-different-hashes", lambda: "hashes %x and %x (first curve x %x / %x) give the same identity point" % (hv, c["hash2"], x1, x2))
    elif neg == "other_msk":
        lib.A.write(conv.bi(c["s2"], 256))
        d.vf_lq_unmarshal(2, P["msk2"], lib.A.ptr, 1, 1)
        d.vf_lq_keygen(P["sk2"], P["msk2"], P["id"])
        use_sk = P["sk2"]
        differs = c["s2"] % R != s % R and Qid is not None
    elif neg == "ct_shift":
        shifted = C.add(rp, C.G2_GEN, C.G2Ops)
        ctypes.memmove(P["ct"], c05.aff_b(lib, 2, shifted, ((0, 0), (1, 0))), g2a)
        differs = True
    else:
        differs = False
    calls1 = d.vf_hash_calls()
    d.vf_lq_decrypt(a2, ctypes.c_size_t(n), use_ct, use_sk, use_id)
    expect(d.vf_hash_calls() == calls1 + 1, "lqibe_decrypt/hash-calls", lambda: "decrypt called the hash function %d times for length %d (exactly once expected)" % (d.vf_hash_calls() - calls1, n))
    h_dec = lib.hash_last()
    out2 = sym2.raw[off2:off2 + n + 32]
    expect(out2[n:] == b"\xEE" * 32, "lqibe_decrypt/symmetric-overrun", "decrypt wrote beyond symmetric_length bytes")
    if differs:
        expect(h_dec != h_enc, "lqibe_decrypt/%s-same-hash-input" % neg, lambda: "a decryption with %s hashes the same bytes as encryption" % neg)
    else:
        expect(h_dec == h_enc, "lqibe_decrypt/hash-input", lambda: "decrypt hashes different bytes than encrypt (s=%x hash=%x)" % (s, hv))
        expect(out1[:n] == out2[:n], "lqibe_decrypt/symmetric-key", "symmetric keys differ")


def prebuild(tier):
    PR.self_test()
    C.gen_mul(2, 3)


SUBCHECKS = [
    Sub("lqibe", cases(), check, 4000, 60000, ("asm",), ("asm", "p32")),
]
