"""C17 - Untrusted bytes and valid calls never cause out-of-bounds access or UB.

Two engines: (1) a coverage-guided libFuzzer campaign (ASan+UBSan) over the length-discovery / unmarshal protocol with
a semantic oracle inside the target (fuzz/fz_unmarshal.cpp); (2) the Hypothesis suites of the other properties re-run
against ASan+UBSan builds of the library, so that every valid call they generate is executed under the sanitizers.
"""
import ctypes
import glob
import hashlib
import json
import os
import re
import shutil
import subprocess
import sys
import time

from .. import build, conv

VERIF = build.VERIF
RULE = ("(1) libFuzzer, coverage-guided, byte level: input = selector byte (object kind x encoding x checked x buffer offset 0..15 behind a 16-byte aligned address) + payload copied "
        "into an exact-size heap block; the target follows the Go callers' protocol (length discovery -> allocate exactly the reported "
        "slots -> unmarshal; fixed-size objects only at their length) and, on acceptance, marshals into an exact-size block, compares the "
        "length functions, unmarshals again and requires identical bytes; ASan+UBSan abort on any out-of-bounds / misaligned / undefined "
        "operation. Seed corpus: valid objects of every kind produced from the working tree, plus one campaign from an empty corpus. "
        "(2) Hypothesis suites of C03/C06/C09/C11/C12/C13/C14/C15/C16 (quick: a scaled subset) executed against g++ -fsanitize=address,"
        "undefined builds (assembly and portable 32-bit words); a sanitizer abort is journaled and reported with the case. "
        "evaluations = fuzz executions + sanitized cases; distinct non-trivial = inputs kept by the fuzzer because they reached new "
        "coverage (final corpus sizes) + distinct non-trivial sanitized cases.")
ASSUMPTIONS = ["ASan/UBSan detect the access classes named by the property (heap/stack/global out-of-bounds, misaligned access, shifts, signed overflow)",
               "the 32-bit-word configuration runs on a 64-bit host (true ILP32 pointer sizes are only compiled, see C19)",
               "only crash-/leak- artifacts count; slow-unit / oom / timeout are load noise"]

FUZZ_FLAGS = ["-std=c++17", "-g", "-O1", "-fno-omit-frame-pointer", "-fsanitize=address,undefined", "-fno-sanitize-recover=undefined"]


def build_fuzzer():
    srcs, asm = build.lib_sources(True)
    target = os.path.join(VERIF, "fuzz", "fz_unmarshal.cpp")
    h = build.tree_hash([target])
    h.update(repr(FUZZ_FLAGS).encode())
    out_dir = os.path.join(build.BUILD, "fuzz-%s" % h.hexdigest()[:20])
    exe = os.path.join(out_dir, "fz_unmarshal")
    if os.path.exists(exe):
        os.utime(out_dir)
        return exe
    tmp = out_dir + ".tmp%d" % os.getpid()
    shutil.rmtree(tmp, ignore_errors=True)
    os.makedirs(tmp)
    inc = ["-I" + os.path.join(build.repo(), "include")]
    jobs, objs = [], []
    for i, s in enumerate(srcs):
        o = os.path.join(tmp, "l%d.o" % i)
        objs.append(o)
        jobs.append(["clang++"] + FUZZ_FLAGS + ["-fsanitize=fuzzer-no-link"] + inc + ["-c", s, "-o", o])
    for i, s in enumerate(asm):
        o = os.path.join(tmp, "a%d.o" % i)
        objs.append(o)
        jobs.append(["as", s, "-o", o])
    o = os.path.join(tmp, "target.o")
    objs.append(o)
    jobs.append(["clang++"] + FUZZ_FLAGS + ["-fsanitize=fuzzer-no-link"] + inc + ["-c", target, "-o", o])
    from concurrent.futures import ThreadPoolExecutor
    with ThreadPoolExecutor(max_workers=16) as ex:
        list(ex.map(build._run, jobs))
    build._run(["clang++"] + FUZZ_FLAGS + ["-fsanitize=fuzzer"] + objs + ["-o", os.path.join(tmp, "fz_unmarshal")])
    for o in objs:
        os.unlink(o)
    shutil.rmtree(out_dir, ignore_errors=True)
    os.rename(tmp, out_dir)
    build._prune("fuzz", 2)
    return exe


def make_corpus(dst, vseed):
    """Valid marshalled objects of every kind, produced by the working tree through the shim."""
    from .. import lib as libmod, wk as wkmod
    from ..ref import curve as C
    from . import c05
    lib = libmod.get("asm")
    W = wkmod.WK(lib)
    d = W.d
    for n_ in ("vf_lq_marshalled_length", "vf_lq_sizeof"):
        getattr(d, n_).restype = ctypes.c_long
    d.vf_lq_marshal.restype = None
    os.makedirs(dst, exist_ok=True)
    count = 0

    def emit(kind, comp, payload):
        nonlocal count
        for checked in (0, 1):
            for odd in (0, 1):
                sel = kind | (0x10 if comp else 0) | (0x20 if checked else 0) | (0x40 if odd else 0)
                with open(os.path.join(dst, "seed-%02d-%d-%d%d-%d" % (kind, comp, checked, odd, count)), "wb") as f:
                    f.write(bytes([sel]) + payload)
                count += 1
            # extended selector: explicit buffer offset behind a 16-byte aligned address (4-but-not-8 aligned, 8-but-not-16, ...)
            off = (2, 4, 8, 12, 6, 3)[count % 6]
            with open(os.path.join(dst, "seed-%02d-%d-%d-off%d-%d" % (kind, comp, checked, off, count)), "wb") as f:
                f.write(bytes([kind | (0x10 if comp else 0) | (0x20 if checked else 0) | 0x80]) + payload + bytes([off]))
            count += 1
    try:
        for l, sigs in ((0, False), (1, True), (3, True), (5, False)):
            params, msk = W.setup(l, sigs, b"corpus%d" % l, vseed + l)
            attrs = wkmod.Attrs([(0, 5)] if l > 1 else [])
            sk = W.keygen(params, msk, attrs, l - len(attrs))
            msg = lib.const("generator_pairing")
            ct = W.encrypt(msg, params, attrs)
            sig = W.sign(params, sk, attrs, 12345)
            for comp in (0, 1):
                for kind, obj in ((0, params), (1, sk), (2, ct), (3, sig), (4, msk)):
                    wk_kind = {0: 0, 1: 2, 2: 3, 3: 4, 4: 1}[kind]
                    n = d.vf_wk_marshalled_length(wk_kind, obj, comp)
                    buf = W.buf(n)
                    d.vf_wk_marshal(wk_kind, buf, obj, comp)
                    emit(kind, comp, ctypes.string_at(buf, n))
        # LQ-IBE objects and bare group elements
        g2sz = lib.sizeof("G2")
        P2 = conv.g2_proj_b(C.gen_mul(2, 7)) + conv.g2_proj_b(C.gen_mul(2, 21))
        a1 = c05.aff_b(lib, 1, C.gen_mul(1, 9), (0, 1))
        a2 = c05.aff_b(lib, 2, C.gen_mul(2, 11), ((0, 0), (1, 0)))
        objs = {5: P2, 6: a1, 7: conv.bi(123456789, 256), 8: a1, 9: a2}
        for kind, img in objs.items():
            o = W.buf(len(img) + 16)
            ctypes.memmove(o, img, len(img))
            for comp in (0, 1):
                n = d.vf_lq_marshalled_length(kind - 5, comp)
                buf = W.buf(n)
                d.vf_lq_marshal(kind - 5, buf, o, comp)
                emit(kind, comp, ctypes.string_at(buf, n))
        from . import c09
        for comp in (0, 1):
            emit(10, comp, c09.lib_encode(lib, 1, C.gen_mul(1, 13), bool(comp))[0])
            emit(11, comp, c09.lib_encode(lib, 2, C.gen_mul(2, 17), bool(comp))[0])
            emit(10, comp, c09.lib_encode(lib, 1, None, bool(comp))[0])
        lib.A.write(lib.const("generator_pairing"))
        lib.fn("vf_tower_be", None)(12, 0, lib.O.ptr, lib.A.ptr)
        emit(12, 0, lib.O.read(576))
    finally:
        W.close()
    return count


def run_fuzz(exe, tier, vseed, work):
    nproc = 16
    runs = 60000 if tier == "quick" else 1500000
    corpus_seed = os.path.join(work, "seed")
    nseeds = make_corpus(corpus_seed, vseed)
    procs = []
    for i in range(nproc):
        cdir = os.path.join(work, "corpus%d" % i)
        os.makedirs(cdir)
        if i != nproc - 1:            # the last campaign starts from an empty corpus
            for f in os.listdir(corpus_seed):
                shutil.copy(os.path.join(corpus_seed, f), cdir)
        adir = os.path.join(work, "art%d" % i) + "/"
        os.makedirs(adir)
        seed = int(hashlib.sha256(("%d/C17/%d" % (vseed, i)).encode()).hexdigest()[:7], 16) + 1
        cmd = [exe, "-runs=%d" % runs, "-seed=%d" % seed, "-max_len=1600", "-timeout=60", "-rss_limit_mb=3000", "-print_final_stats=1",
               "-artifact_prefix=" + adir, "-use_value_profile=1", cdir]
        env = dict(os.environ, ASAN_OPTIONS="detect_leaks=1:abort_on_error=0:allocator_may_return_null=1", UBSAN_OPTIONS="print_stacktrace=1")
        log = open(os.path.join(work, "log%d.txt" % i), "w")
        procs.append((subprocess.Popen(cmd, stdout=log, stderr=subprocess.STDOUT, env=env), log, cdir, adir, i))
    stats = {"execs": 0, "corpus": 0, "cov": 0, "seeds": nseeds, "campaigns": nproc}
    artifacts = []
    for p, log, cdir, adir, i in procs:
        p.wait()
        log.close()
        txt = open(os.path.join(work, "log%d.txt" % i), errors="replace").read()
        m = re.search(r"stat::number_of_executed_units:\s*(\d+)", txt)
        if m:
            stats["execs"] += int(m.group(1))
        else:
            ms = re.findall(r"^#(\d+)\s", txt, re.M)
            if ms:
                stats["execs"] += int(ms[-1])
        covs = re.findall(r"cov: (\d+)", txt)
        if covs:
            stats["cov"] = max(stats["cov"], int(covs[-1]))
        stats["corpus"] += len(os.listdir(cdir))
        for a in sorted(os.listdir(adir)):
            if a.startswith(("crash-", "leak-")):
                summary = ""
                ms = re.search(r"SUMMARY: (.*)", txt)
                if ms:
                    summary = ms.group(1)[:300]
                else:
                    ms = re.search(r"runtime error: (.*)", txt)
                    summary = ms.group(1)[:300] if ms else "deadly signal / trap (semantic oracle of the target)"
                artifacts.append((os.path.join(adir, a), summary, i))
    return stats, artifacts


SAN_SUITES_QUICK = [("C15", 0.25), ("C11", 0.15), ("C14", 0.1), ("C06", 0.05), ("C09", 0.1), ("C03", 0.05)]
SAN_SUITES_THOROUGH = [("C15", 1.0), ("C11", 1.0), ("C14", 1.0), ("C12", 1.0), ("C13", 1.0), ("C16", 1.0), ("C06", 1.0), ("C09", 1.0), ("C03", 0.5), ("C04", 0.5), ("C05", 0.5), ("C08", 0.5), ("C10", 0.5), ("C18", 0.5)]


def run_sanitized(tier, vseed, work):
    asan = subprocess.run(["g++", "-print-file-name=libasan.so"], stdout=subprocess.PIPE, text=True).stdout.strip()
    results = []
    suites = SAN_SUITES_QUICK if tier == "quick" else SAN_SUITES_THOROUGH
    for c in ("asm-san",) + (("p32-san",) if tier == "thorough" else ()):
        build.build_shim(c)
    for pid, sc in suites:
        ev = os.path.join(work, "san-%s.json" % pid)
        env = dict(os.environ, VERIF_SAN="1", VERIF_SCALE=str(sc), VERIF_EVIDENCE_OUT=ev, LD_PRELOAD=asan, VERIF_SEED=str(vseed),
                   ASAN_OPTIONS="detect_leaks=0:abort_on_error=1", UBSAN_OPTIONS="print_stacktrace=1:halt_on_error=1")
        p = subprocess.run([os.path.join(VERIF, "check"), pid, "--tier", "quick"], cwd=VERIF, env=env, stdout=subprocess.PIPE, stderr=subprocess.STDOUT, text=True)
        cov = {}
        if os.path.exists(ev):
            cov = json.load(open(ev))["coverage"]
        results.append({"suite": pid, "exit": p.returncode, "evaluations": cov.get("evaluations", 0), "nontrivial": cov.get("distinct_nontrivial", 0),
                        "output": p.stdout[-3000:]})
    return results


def replay(path):
    if path.endswith(".json"):
        body = json.load(open(path))
        pid = body.get("property", "C17")
        asan = subprocess.run(["g++", "-print-file-name=libasan.so"], stdout=subprocess.PIPE, text=True).stdout.strip()
        env = dict(os.environ, VERIF_SAN="1", LD_PRELOAD=asan, ASAN_OPTIONS="detect_leaks=0:abort_on_error=1")
        p = subprocess.run([os.path.join(VERIF, "check"), pid, "--replay", path], cwd=VERIF, env=env, stdout=subprocess.PIPE, stderr=subprocess.STDOUT, text=True)
        if p.returncode == 1:
            print("VIOLATION property=C17 replay=%s" % path)
            print(p.stdout[-1500:])
            return 1
        print("replay passes: %s" % path)
        return 0
    exe = build_fuzzer()
    p = subprocess.run([exe, path], stdout=subprocess.PIPE, stderr=subprocess.STDOUT, text=True, env=dict(os.environ, ASAN_OPTIONS="detect_leaks=1"))
    if p.returncode != 0:
        print("VIOLATION property=C17 replay=%s" % path)
        print(p.stdout[-2000:])
        return 1
    print("replay passes: %s" % path)
    return 0


def main(pid, tier, vseed):
    t0 = time.time()
    from ..runner import load_known
    work = os.path.join(build.BUILD, "c17-work-%d" % os.getpid())
    shutil.rmtree(work, ignore_errors=True)
    os.makedirs(work)
    try:
        exe = build_fuzzer()
        # regression inputs first (seconds)
        violations = []
        rdir = os.path.join(VERIF, "replays", "regress")
        nreg = 0
        for fn in sorted(os.listdir(rdir)) if os.path.isdir(rdir) else []:
            if fn.startswith("C17-fuzz-"):
                nreg += 1
                p = subprocess.run([exe, os.path.join(rdir, fn)], stdout=subprocess.PIPE, stderr=subprocess.STDOUT, text=True)
                if p.returncode != 0:
                    violations.append((os.path.join(rdir, fn), "fuzz/regression", p.stdout[-600:]))
        stats, artifacts = run_fuzz(exe, tier, vseed, work)
        os.makedirs(os.environ.get("VERIF_REPLAY_DIR") or os.path.join(VERIF, "replays"), exist_ok=True)
        seen = set()
        for path, summary, i in artifacts:
            key = re.sub(r"0x[0-9a-f]+", "", summary)[:120]
            if key in seen:
                continue
            seen.add(key)
            # confirm outside the campaign, three times
            fails = sum(1 for _ in range(3) if subprocess.run([exe, path], stdout=subprocess.DEVNULL, stderr=subprocess.DEVNULL).returncode != 0)
            if fails == 3:
                dst = os.path.join(os.environ.get("VERIF_REPLAY_DIR") or os.path.join(VERIF, "replays"), "C17-fuzz-" + os.path.basename(path))
                shutil.copy(path, dst)
                violations.append((dst, "fuzz/" + key.split(" ")[0], summary))
        samples = []
        for f in sorted(glob.glob(os.path.join(work, "corpus0", "*")))[:4]:
            samples.append({"class": "fuzz-corpus", "case": open(f, "rb").read()[:96].hex()})
        san = run_sanitized(tier, vseed, work)
        kn, _ = load_known()
        known = {k["signature"]: k for k in kn if k["property"] == "C17"}
        for r in san:
            if r["exit"] == 1:
                for m in re.finditer(r"VIOLATION property=(\w+) replay=(\S+)\n\s*(.*)", r["output"]):
                    violations.append((m.group(2), "sanitized/%s/%s" % (r["suite"], m.group(3).split(":")[0]), m.group(3)[:400]))
            elif r["exit"] != 0:
                sys.stderr.write("HARNESS ERROR: sanitized suite %s exited %d\n%s\n" % (r["suite"], r["exit"], r["output"][-1500:]))
                return 2
        out = []
        for path, sig, msg in violations:
            if sig in known:
                print("KNOWN-FINDING: property=C17 %s" % known[sig]["what"])
                continue
            out.append((path, sig, msg))
            print("VIOLATION property=C17 replay=%s" % path)
            print("  %s: %s" % (sig, msg[:500]))
        evid = {
            "property_id": "C17", "tier": tier, "seed": int(vseed), "level": "exploration",
            "coverage": {
                "evaluations": int(stats["execs"] + sum(r["evaluations"] for r in san)),
                "distinct_nontrivial": int(stats["corpus"] + sum(r["nontrivial"] for r in san)),
                "rule": RULE,
                "samples": samples + [{"class": "sanitized-suite", "case": "%s: %d cases under ASan+UBSan" % (r["suite"], r["evaluations"])} for r in san],
                "fuzz": stats, "fuzz_regression_inputs": nreg,
                "sanitized_suites": [{k: v for k, v in r.items() if k != "output"} for r in san],
                "exhaustive": False,
            },
            "assumptions": ASSUMPTIONS, "wall_s": round(time.time() - t0, 2), "violations": len(out),
        }
        os.makedirs(os.path.join(VERIF, "evidence"), exist_ok=True)
        json.dump(evid, open(os.environ.get("VERIF_EVIDENCE_OUT") or os.path.join(VERIF, "evidence", "C17.json"), "w"), indent=1)
        print("C17 %s: %d fuzz execs (%d campaigns, corpus %d, cov %d), %d sanitized cases, %d violations, %.1fs" % (
            tier, stats["execs"], stats["campaigns"], stats["corpus"], stats["cov"], sum(r["evaluations"] for r in san), len(out), evid["wall_s"]))
        return 1 if out else 0
    finally:
        shutil.rmtree(work, ignore_errors=True)
