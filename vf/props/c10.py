"""C10 - Hash-to-scalar, hash-to-curve and random sampling always land in the right set."""
import ctypes

from hypothesis import strategies as st

from .. import conv, gens
from ..ref import curve as C
from ..ref import fields as F
from ..ref import pairing as PR
from ..runner import Sub, expect
from . import c05

RULE = ("Generated: 32/48/96-byte hash inputs whose integer value comes from the boundary mixture (values >= modulus, >= 2*modulus, all "
        "top-bit patterns, x-coordinates chosen by the reference so that 0..k increments are needed) and random byte streams (raw, "
        "all-ones, candidates >= modulus first) for the samplers, and base-|x| digit streams incl. the digits of r-1, r, r+1 for the "
        "decomposed-exponent samplers (PowersOfX::random, wkdibe::random_zpstar(powers, s)): y < r, digits < |x|, digits recombine to y. Oracle: zp_from_hash / scalar_hash_reduce = masked value reduced once; "
        "hash-to-curve: x is the first x >= x0 (incrementing c0) with x^3+b a square by the REFERENCE Legendre symbol, y^2 = x^3+b, "
        "identical on repeated calls and on a second back end (portable 64-bit); compute_id_from_hash = [h]*(that point) by the "
        "reference and in G1; sampled scalars/field elements < modulus; sampled group elements on the curve, not the identity, [r]P = O "
        "by the reference; random_gt in GT. Non-trivial = hash input >= modulus or needing >= 1 increment, or a stream that forced a "
        "rejection (more bytes requested than one candidate needs).")
ASSUMPTIONS = ["reference Legendre symbol / square roots / group law", "which of the two roots y is chosen is not constrained by the statement (either accepted)",
               "byte streams are only assumed to be consumed in order; the oracle never depends on how"]

Q, R = F.Q, F.R_ORDER
API = "embedded_pairing_bls12_381_"
M381 = (1 << 381) - 1

OPS = ("zp_from_hash", "scalar_hash_reduce", "g1_from_hash", "g2_from_hash", "lq_id", "zp_random", "zpstar", "fq_random", "fq2_random",
       "g1_random", "g2_random", "wk_g1", "wk_g2", "wk_gt", "px_random", "wk_zpstar_px")


@st.composite
def hash_int(draw, nbytes, m):
    bits = 8 * nbytes
    t, v = draw(gens.ints(bits, m))
    how = draw(st.integers(0, 4))
    if how == 0:
        v = (m + v % m) % (1 << bits)              # in [m, 2m)
    elif how == 1:
        v = (v & ((1 << (bits - 3)) - 1)) | (draw(st.integers(0, 7)) << (bits - 3))
    return v


@st.composite
def stream(draw, unit, m, mask_bits):
    kind = draw(st.sampled_from(("raw", "raw", "ones", "reject_first", "empty")))
    if kind == "raw":
        return kind, draw(st.binary(min_size=0, max_size=3 * unit))
    if kind == "empty":
        return kind, b""
    if kind == "ones":
        return kind, b"\xff" * (unit * draw(st.integers(1, 3)) + draw(st.integers(0, 5)))
    # candidates whose masked little-endian value is >= m, then arbitrary bytes
    out = b""
    for _ in range(draw(st.integers(1, 3))):
        v = m + draw(st.integers(0, (1 << mask_bits) - 1 - m))
        v |= draw(st.integers(0, (1 << (8 * unit - mask_bits)) - 1)) << mask_bits
        out += v.to_bytes(unit, "little")
    return kind, out + draw(st.binary(min_size=0, max_size=unit))


@st.composite
def cases(draw):
    op = draw(st.sampled_from(OPS))
    c = {"op": op, "seed": draw(st.integers(0, 2**32))}
    if op in ("zp_from_hash", "scalar_hash_reduce"):
        c["v"] = draw(hash_int(32, R))
    elif op in ("g1_from_hash", "lq_id"):
        c["v"] = draw(hash_int(48, Q))
        c["incr"] = draw(st.integers(0, 6))
    elif op == "g2_from_hash":
        c["v1"] = draw(hash_int(48, Q))
        c["v0"] = draw(hash_int(48, Q))
        c["incr"] = draw(st.integers(0, 6))
    elif op in ("zp_random", "zpstar"):
        c["sk"], c["stream"] = draw(stream(32, R, 255))
    elif op in ("fq_random", "fq2_random", "g1_random", "g2_random", "wk_g1", "wk_g2"):
        c["sk"], c["stream"] = draw(stream(48, Q, 381))
        if op not in ("fq_random", "fq2_random") and draw(st.integers(0, 2)) == 0:
            # first candidate x belongs to a point of the cofactor subgroup ([h]P = O): the sampler has to retry
            g = 1 if op in ("g1_random", "wk_g1") else 2
            K = c05.KK(g)
            if g == 1 and draw(st.booleans()):
                T = (0, 2)
            else:
                x = draw(c05.fe(g))
                P = None
                while P is None:
                    P = C.lift_x(x, K, 0)
                    x = K.add(x, K.one)
                T = C.mul(P, R, K)
            if T is not None:
                xs = [T[0]] if g == 1 else [T[0][0], T[0][1]]
                head = b"".join(conv.bi(conv.fq_raw(v), 384) for v in xs) + bytes([draw(st.integers(0, 255))])
                c["sk"], c["stream"] = "cofactor_point", head + c["stream"]
    elif op in ("px_random", "wk_zpstar_px"):
        # decomposed exponents: streams of base-|x| digits incl. the digits of r-1, r, r+1, |x|^4-1 (whole-value rejection boundary)
        from . import c07
        c["sk"], c["stream"] = draw(c07.streams())
    else:
        c["sk"], c["stream"] = draw(stream(8, -F.X, 64))
    return c


def first_point(g, x0):
    """Reference try-and-increment: (x, number of increments)."""
    K = c05.KK(g)
    x = x0
    n = 0
    while True:
        rhs = K.add(K.mul(K.mul(x, x), x), K.b)
        leg = F.fq_legendre(rhs) if g == 1 else F.fq2_legendre(rhs)
        if leg != -1:
            return x, n
        x = K.add(x, K.one)
        n += 1


def steer(g, x0, incr):
    """Moves x0 down so that roughly `incr` increments are needed (keeps the construction inside the strategy's draw)."""
    K = c05.KK(g)
    x = x0
    for _ in range(incr):
        prev = K.sub(x, K.one)
        rhs = K.add(K.mul(K.mul(prev, prev), prev), K.b)
        leg = F.fq_legendre(rhs) if g == 1 else F.fq2_legendre(rhs)
        if leg != -1:
            break
        x = prev
    return x


def earlier_user_call(ctx, lib, c):
    """On half of the cases that hash or sample into G1 / G2, the caller has just used the library for something else: a G1
    multiplication by a 128-bit scalar of its own (the width the cofactor has) and a G2 multiplication by a 512-bit one, each checked
    against the reference. Sampling and hashing must not depend on who used a shared helper first, or last."""
    if not c["seed"] & 4:
        return
    k = (c["seed"] * 0x9E3779B97F4A7C15 + 12345) & ((1 << 128) - 1) | 1
    lib.A.write_operand(c05.aff_b(lib, 1, C.gen_mul(1, 1), (1, 2)))
    lib.B.write_operand(conv.bi(k, 128))
    lib.fn("vf_g1_mul_128", None)(lib.O.ptr, lib.A.ptr, 1, lib.B.ptr)
    got = c05.b_proj(1, lib.O.read(lib.sizeof("G1")))
    expect(got == C.gen_mul(1, k % R), "earlier-user-call/g1_multiply_128", lambda: "[k]G for the 128-bit k=%x is wrong" % k)
    k2 = (k * k * k * k + 7) & ((1 << 512) - 1)
    G2 = C.gen_mul(2, 1)
    lib.A.write_operand(c05.aff_b(lib, 2, G2, ((1, 2), (3, 4))))
    lib.B.write_operand(conv.bi(k2, 512))
    lib.fn("vf_g2_mul_512", None)(lib.O.ptr, lib.A.ptr, 1, lib.B.ptr)
    got = c05.b_proj(2, lib.O.read(lib.sizeof("G2")))
    expect(got == C.gen_mul(2, k2 % R), "earlier-user-call/g2_multiply_512", lambda: "[k]G2 for the 512-bit k=%x is wrong" % k2)
    ctx.event("earlier-user-call")


def check(ctx, env, c):
    lib, lib2 = env
    op = c["op"]
    if op in ("g1_random", "wk_g1", "lq_id", "g1_from_hash", "g2_random", "wk_g2", "g2_from_hash"):
        earlier_user_call(ctx, lib, c)
    if op in ("zp_from_hash", "scalar_hash_reduce"):
        v = c["v"]
        masked = v & ((1 << 255) - 1)
        exp = masked - R if masked >= R else masked
        if op == "zp_from_hash":
            f = getattr(lib.dll, API + "zp_from_hash")
            f.restype = None
            lib.A.write(v.to_bytes(32, "big"))
            lib.O.fill(0xCD, 32)
            f(lib.O.ptr, lib.A.ptr)
        else:
            f = lib.dll.embedded_pairing_wkdibe_scalar_hash_reduce
            f.restype = None
            lib.O.write(conv.bi(v, 256))
            f(lib.O.ptr)
        got = conv.ib(lib.O.read(32))
        ctx.count(c, masked >= R or v >> 255, op + (":ge-r" if masked >= R else ""))
        expect(got == exp and got < R, op + "/value", lambda: "input=%x got=%x expected=%x" % (v, got, exp))
        return
    if op in ("g1_from_hash", "g2_from_hash", "lq_id"):
        g = 2 if op == "g2_from_hash" else 1
        K = c05.KK(g)
        if g == 1:
            v = c["v"]
            x0 = steer(1, (v & M381) % Q, c["incr"])
            # rebuild bytes for the steered start, keeping the original flag bits and the >= q representation when it fits
            top = v >> 381
            body = x0 + Q if (v & M381) >= Q and x0 + Q <= M381 else x0
            data = ((top << 381) | body).to_bytes(48, "big")
            start = x0
        else:
            x0 = steer(2, ((c["v0"] & M381) % Q, (c["v1"] & M381) % Q), c["incr"])
            t1, t0 = c["v1"] >> 381, c["v0"] >> 381
            data = ((t1 << 381) | x0[1]).to_bytes(48, "big") + ((t0 << 381) | x0[0]).to_bytes(48, "big")
            start = x0
        x, n = first_point(g, start)
        asz = lib.sizeof("G%dAffine" % g)
        if op == "lq_id":
            name = "embedded_pairing_lqibe_compute_id_from_hash"
        else:
            name = API + "g%daffine_from_hash" % g
        outs = []
        for L in (lib, lib, lib2):
            f = getattr(L.dll, name)
            f.restype = None
            L.A.write(data)
            L.O.fill(0xCD if L is lib else 0x00, asz)
            f(L.O.ptr, L.A.ptr)
            outs.append(L.O.read(asz))
        got = c05.b_aff(lib, g, outs[0])
        ge = (int.from_bytes(data[:48], "big") & M381) >= Q
        ctx.count(c, n >= 1 or ge, "%s:incr%d%s" % (op, min(n, 3), ":ge-q" if ge else ""))
        if op != "lq_id":
            # (the cofactor-cleared identity point may legitimately be O, e.g. for x = 0: (0,2) has order 3 and 3 divides the cofactor)
            expect(got is not None, op + "/identity", "hash-to-curve returned the identity")
        expect(c05.b_aff(lib, g, outs[1]) == got, op + "/nondeterministic", "two calls with the same input differ")
        expect(c05.b_aff(lib2, g, outs[2]) == got, op + "/backend-dependent", lambda: "portable 64-bit build gives a different point for %s" % data.hex())
        expect(got is None or C.on_curve(got, K), op + "/offcurve", lambda: "input=%s" % data.hex())
        if op == "lq_id":
            base = C.lift_x(x, K, 0)
            e1 = C.mul(base, F.G1_COFACTOR, K)
            expect(got in (e1, C.neg(e1, K)), op + "/value", lambda: "input=%s: not [h]*(first point)" % data.hex())
            expect(C.mul(got, R, K) is None, op + "/subgroup", "identity point is not in G1")
            if e1 is None:
                ctx.event("lq_id/cofactor-cleared-to-identity")
        else:
            expect(got[0] == x, op + "/x", lambda: "input=%s got x=%r expected first x=%r after %d increments" % (data.hex(), got[0], x, n))
        return
    # samplers
    lib.set_random(c["stream"], c["seed"])
    sk = c["sk"]
    if op in ("zp_random", "zpstar"):
        if op == "zp_random":
            f = getattr(lib.dll, API + "zp_random")
        else:
            f = lib.dll.embedded_pairing_wkdibe_random_zpstar
        f.restype = None
        lib.O.arm(32)
        f(lib.O.ptr, lib.rand_fn)
        lib.O.check_guard(op, 32)
        got = conv.ib(lib.O.read(32))
        rej = lib.rand_requested() > 32
        ctx.count(c, rej, "%s:%s%s" % (op, sk, ":rejected" if rej else ""))
        expect(got < R, op + "/range", lambda: "stream=%s got=%x" % (c["stream"].hex(), got))
        # a sampler is a function of the bytes it is given: the same stream again gives the same scalar and consumes as many bytes
        req = lib.rand_requested()
        lib.set_random(c["stream"], c["seed"])
        lib.O.arm(32)
        f(lib.O.ptr, lib.rand_fn)
        expect(conv.ib(lib.O.read(32)) == got and lib.rand_requested() == req, op + "/depends-on-earlier-calls", lambda: "stream=%s: first call %x (%d bytes), same stream again %x (%d bytes)" % (c["stream"].hex(), got, req, conv.ib(lib.O.read(32)), lib.rand_requested()))
        return
    if op in ("fq_random", "fq2_random"):
        deg = 1 if op == "fq_random" else 2
        lib.O.arm(48 * deg)
        lib.fn("vf_tower_random", None)(deg, lib.O.ptr)
        lib.O.check_guard(op, 48 * deg)
        ws = conv.raws(lib.O.read(48 * deg))
        rej = lib.rand_requested() > 48 * deg
        ctx.count(c, rej, "%s:%s%s" % (op, sk, ":rejected" if rej else ""))
        expect(all(w < Q for w in ws), op + "/range", lambda: "stream=%s got=%r" % (c["stream"].hex(), [hex(w) for w in ws]))
        req = lib.rand_requested()
        lib.set_random(c["stream"], c["seed"])
        lib.O.arm(48 * deg)
        lib.fn("vf_tower_random", None)(deg, lib.O.ptr)
        expect(conv.raws(lib.O.read(48 * deg)) == ws and lib.rand_requested() == req, op + "/depends-on-earlier-calls", lambda: "stream=%s: the same stream again gives another element" % c["stream"].hex())
        return
    if op in ("g1_random", "g2_random", "wk_g1", "wk_g2"):
        g = 1 if op in ("g1_random", "wk_g1") else 2
        K = c05.KK(g)
        if op.startswith("wk"):
            f = getattr(lib.dll, "embedded_pairing_wkdibe_random_g%d" % g)
        else:
            f = getattr(lib.dll, API + "g%d_random" % g)
        f.restype = None
        psz = lib.sizeof("G%d" % g)
        lib.O.fill(0xCD, psz)
        f(lib.O.ptr, lib.rand_fn)
        out = lib.O.read(psz)
        got = c05.b_proj(g, out)
        rej = lib.rand_requested() > 48 * g + 1
        ctx.count(c, rej, "%s:%s%s" % (op, sk, ":rejected" if rej else ""))
        expect(got is not None, op + "/identity", "sampled group element is the identity")
        expect(C.on_curve(got, K), op + "/offcurve", lambda: "stream=%s" % c["stream"].hex())
        expect(C.mul(got, R, K) is None, op + "/subgroup", lambda: "stream=%s: [r]P != O" % c["stream"].hex())
        req = lib.rand_requested()
        lib.set_random(c["stream"], c["seed"])
        lib.O.fill(0xCD, psz)
        f(lib.O.ptr, lib.rand_fn)
        expect(c05.b_proj(g, lib.O.read(psz)) == got and lib.rand_requested() == req, op + "/depends-on-earlier-calls", lambda: "stream=%s: the same stream again gives another point" % c["stream"].hex())
        return
    if op in ("px_random", "wk_zpstar_px"):
        ABS_X = -F.X
        lib.B.fill(0xCD, 32)
        lib.fn("vf_px_random" if op == "px_random" else "vf_wk_random_zpstar_px", None)(lib.O.ptr, lib.B.ptr)
        cs = conv.px_unpack(lib, lib.O.read(lib.sizeof("PowersOfX")))
        y = conv.ib(lib.B.read(32))
        rej = lib.rand_requested() > 32
        ctx.count(c, rej or sk == "target", "%s:%s%s" % (op, sk, ":rejected" if rej else ""))
        expect(y < R, op + "/range", lambda: "stream=%s y=%x" % (c["stream"].hex(), y))
        expect(all(d_ < ABS_X for d_ in cs), op + "/digit-range", lambda: "stream=%s digits=%r" % (c["stream"].hex(), cs))
        expect(sum(d_ * ABS_X**i for i, d_ in enumerate(cs)) == y, op + "/consistency", lambda: "digits=%r do not recombine to y=%x" % (cs, y))
        req = lib.rand_requested()
        lib.set_random(c["stream"], c["seed"])
        lib.B.fill(0xCD, 32)
        lib.fn("vf_px_random" if op == "px_random" else "vf_wk_random_zpstar_px", None)(lib.O.ptr, lib.B.ptr)
        expect(conv.ib(lib.B.read(32)) == y and lib.rand_requested() == req, op + "/depends-on-earlier-calls", lambda: "stream=%s: the same stream again gives another exponent" % c["stream"].hex())
        return
    # wk_gt
    f = lib.dll.embedded_pairing_wkdibe_random_gt
    f.restype = None
    lib.O.fill(0xCD, 576)
    f(lib.O.ptr, lib.rand_fn)
    out = lib.O.read(576)
    got = F.tower_to_flat(conv.b_fq12(out))
    rej = lib.rand_requested() > 32
    ctx.count(c, rej, "%s:%s%s" % (op, sk, ":rejected" if rej else ""))
    expect(all(w < Q for w in conv.raws(out)), op + "/noncanonical", "non-reduced word")
    expect(F.p_pow(got, R) == F.P_ONE, op + "/subgroup", lambda: "stream=%s: result^r != 1" % c["stream"].hex())


def setup(cfg):
    from .. import lib as libmod
    return libmod.get(cfg), libmod.get("p64")


def prebuild(tier):
    from .. import build
    build.build_shim("p64")
    C.self_test()


SUBCHECKS = [
    Sub("hash_and_sample", cases(), check, 30000, 250000, ("asm",), ("asm", "p32"), setup=setup),
]
