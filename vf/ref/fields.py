"""Reference arithmetic for BLS12-381, written from the defining equations with Python integers.

Nothing here is derived from the library's source: constants are computed from the curve
parameter x, products are schoolbook products modulo the defining polynomials
  Fq2 = Fq[u]/(u^2+1),  Fq6 = Fq2[v]/(v^3-(u+1)),  Fq12 = Fq6[w]/(w^2-v)
and inverses come from the extended Euclidean algorithm / norms.

Representations: Fq -> int, Fq2 -> (c0,c1), Fq6 -> (c0,c1,c2) of Fq2, Fq12 -> (c0,c1) of Fq6.
A second, flat representation Fq[w]/(w^12-2w^6+2) (u = w^6-1, v = w^2) is used for speed
(exponentiation, inversion, Frobenius) and cross-checked against the tower at start-up.
"""

X = -0xd201000000010000                  # the BLS parameter
R_ORDER = X**4 - X**2 + 1                # group order r
Q = ((X - 1)**2 * R_ORDER) // 3 + X      # base field characteristic q
assert ((X - 1)**2 * R_ORDER) % 3 == 0
G1_ORDER = Q + 1 - (X + 1)               # #E(Fq), trace t = x+1
G1_COFACTOR = G1_ORDER // R_ORDER
assert G1_ORDER % R_ORDER == 0
assert G1_COFACTOR == (X - 1)**2 // 3
# #E'(Fq2) for the sextic twist that has order divisible by r
_t = X + 1
_t2 = _t * _t - 2 * Q                    # trace of Frobenius over Fq2
_f2 = (4 * Q * Q - _t2 * _t2) // 3       # 4q^2 - t2^2 = 3 f^2
_f = None


def _isqrt(n):
    import math
    return math.isqrt(n)


_f = _isqrt(_f2)
assert _f * _f == _f2
_cands = [Q * Q + 1 - (_t2 + 3 * _f) // 2, Q * Q + 1 - (_t2 - 3 * _f) // 2,
          Q * Q + 1 + (_t2 + 3 * _f) // 2, Q * Q + 1 + (_t2 - 3 * _f) // 2]
_cands = [c for c in _cands if c % R_ORDER == 0 and c > 0]
assert len(_cands) == 1
G2_ORDER = _cands[0]
G2_COFACTOR = G2_ORDER // R_ORDER

# Montgomery constants implied by the word-array widths
FQ_BITS, FR_BITS = 384, 256
FQ_R = (1 << FQ_BITS) % Q
FQ_R2 = FQ_R * FQ_R % Q
FQ_RINV = pow(FQ_R, -1, Q)
FQ_INV = (-pow(Q, -1, 1 << FQ_BITS)) % (1 << FQ_BITS)
FR_R = (1 << FR_BITS) % R_ORDER
FR_R2 = FR_R * FR_R % R_ORDER
FR_RINV = pow(FR_R, -1, R_ORDER)
FR_INV = (-pow(R_ORDER, -1, 1 << FR_BITS)) % (1 << FR_BITS)


def is_prime(n, rounds=16):
    if n < 2:
        return False
    for p in (2, 3, 5, 7, 11, 13, 17, 19, 23, 29, 31, 37):
        if n % p == 0:
            return n == p
    d, s = n - 1, 0
    while d % 2 == 0:
        d //= 2
        s += 1
    for a in (2, 3, 5, 7, 11, 13, 17, 19, 23, 29, 31, 37, 41, 43, 47, 53)[:rounds]:
        x = pow(a, d, n)
        if x in (1, n - 1):
            continue
        for _ in range(s - 1):
            x = x * x % n
            if x == n - 1:
                break
        else:
            return False
    return True


# ---- Fq -----------------------------------------------------------------------------
def fq_inv(a):
    return pow(a, -1, Q) if a % Q else 0


def fq_legendre(a):
    a %= Q
    if a == 0:
        return 0
    return 1 if pow(a, (Q - 1) // 2, Q) == 1 else -1


def fq_sqrt(a):
    """A square root of a (q = 3 mod 4) or None."""
    a %= Q
    s = pow(a, (Q + 1) // 4, Q)
    return s if s * s % Q == a else None


def fr_sqrt(a):
    """Tonelli-Shanks in Fr; returns a root or None."""
    p = R_ORDER
    a %= p
    if a == 0:
        return 0
    if pow(a, (p - 1) // 2, p) != 1:
        return None
    s, t = 0, p - 1
    while t % 2 == 0:
        s += 1
        t //= 2
    z = 2
    while pow(z, (p - 1) // 2, p) != p - 1:
        z += 1
    m, c, tt, res = s, pow(z, t, p), pow(a, t, p), pow(a, (t + 1) // 2, p)
    while tt != 1:
        i, x = 0, tt
        while x != 1:
            x = x * x % p
            i += 1
        b = pow(c, 1 << (m - i - 1), p)
        m, c = i, b * b % p
        tt, res = tt * c % p, res * b % p
    return res


# ---- Fq2 = Fq[u]/(u^2+1) --------------------------------------------------------------
FQ2_ZERO, FQ2_ONE = (0, 0), (1, 0)
XI = (1, 1)  # u + 1, the cubic/quadratic non-residue defining Fq6


def fq2(a, b=0):
    return (a % Q, b % Q)


def fq2_add(a, b):
    return ((a[0] + b[0]) % Q, (a[1] + b[1]) % Q)


def fq2_sub(a, b):
    return ((a[0] - b[0]) % Q, (a[1] - b[1]) % Q)


def fq2_neg(a):
    return ((-a[0]) % Q, (-a[1]) % Q)


def fq2_mul(a, b):
    # (a0 + a1 u)(b0 + b1 u) with u^2 = -1
    return ((a[0] * b[0] - a[1] * b[1]) % Q, (a[0] * b[1] + a[1] * b[0]) % Q)


def fq2_sqr(a):
    return fq2_mul(a, a)


def fq2_scalar(a, k):
    return (a[0] * k % Q, a[1] * k % Q)


def fq2_conj(a):
    return (a[0], (-a[1]) % Q)


def fq2_norm(a):
    return (a[0] * a[0] + a[1] * a[1]) % Q


def fq2_inv(a):
    n = fq2_norm(a)
    if n == 0:
        return (0, 0)
    ni = pow(n, -1, Q)
    return (a[0] * ni % Q, (-a[1]) * ni % Q)


def fq2_pow(a, e):
    res = FQ2_ONE
    base = a
    while e:
        if e & 1:
            res = fq2_mul(res, base)
        base = fq2_mul(base, base)
        e >>= 1
    return res


def fq2_legendre(a):
    if a == (0, 0):
        return 0
    return 1 if fq2_pow(a, (Q * Q - 1) // 2) == FQ2_ONE else -1


def fq2_sqrt(a):
    """A square root in Fq2 or None; 'complex' method independent of the library's algorithm."""
    a = fq2(*a)
    if a == (0, 0):
        return (0, 0)
    if a[1] == 0:
        s = fq_sqrt(a[0])
        if s is not None:
            return (s, 0)
        s = fq_sqrt((-a[0]) % Q)      # sqrt(-1) = u
        return (0, s)
    n = fq2_norm(a)
    sn = fq_sqrt(n)
    if sn is None:
        return None
    inv2 = pow(2, -1, Q)
    for alpha in ((a[0] + sn) * inv2 % Q, (a[0] - sn) * inv2 % Q):
        x = fq_sqrt(alpha)
        if x is not None and x != 0:
            y = a[1] * pow(2 * x, -1, Q) % Q
            cand = (x, y)
            if fq2_sqr(cand) == a:
                return cand
    return None


# ---- Fq6 = Fq2[v]/(v^3 - xi) ------------------------------------------------------------
FQ6_ZERO = (FQ2_ZERO, FQ2_ZERO, FQ2_ZERO)
FQ6_ONE = (FQ2_ONE, FQ2_ZERO, FQ2_ZERO)


def fq6_add(a, b):
    return tuple(fq2_add(x, y) for x, y in zip(a, b))


def fq6_sub(a, b):
    return tuple(fq2_sub(x, y) for x, y in zip(a, b))


def fq6_neg(a):
    return tuple(fq2_neg(x) for x in a)


def fq6_mul(a, b):
    # schoolbook: sum a_i b_j v^(i+j), v^3 = xi
    t = [FQ2_ZERO] * 5
    for i in range(3):
        for j in range(3):
            t[i + j] = fq2_add(t[i + j], fq2_mul(a[i], b[j]))
    return (fq2_add(t[0], fq2_mul(t[3], XI)), fq2_add(t[1], fq2_mul(t[4], XI)), t[2])


def fq6_mul_by_v(a):
    return (fq2_mul(a[2], XI), a[0], a[1])


# ---- Fq12 = Fq6[w]/(w^2 - v) ------------------------------------------------------------
FQ12_ZERO = (FQ6_ZERO, FQ6_ZERO)
FQ12_ONE = (FQ6_ONE, FQ6_ZERO)


def fq12_add(a, b):
    return (fq6_add(a[0], b[0]), fq6_add(a[1], b[1]))


def fq12_sub(a, b):
    return (fq6_sub(a[0], b[0]), fq6_sub(a[1], b[1]))


def fq12_neg(a):
    return (fq6_neg(a[0]), fq6_neg(a[1]))


def fq12_mul(a, b):
    # (a0 + a1 w)(b0 + b1 w), w^2 = v
    return (fq6_add(fq6_mul(a[0], b[0]), fq6_mul_by_v(fq6_mul(a[1], b[1]))),
            fq6_add(fq6_mul(a[0], b[1]), fq6_mul(a[1], b[0])))


# ---- flat representation Fq[w]/(w^12 - 2 w^6 + 2) -----------------------------------------
# u = w^6 - 1 (so u^2 = w^12 - 2w^6 + 1 = -1), v = w^2 (v^3 = w^6 = u + 1).
P_ONE = (1,) + (0,) * 11
P_ZERO = (0,) * 12


def p_mul(a, b):
    t = [0] * 23
    for i, ai in enumerate(a):
        if ai:
            for j, bj in enumerate(b):
                t[i + j] += ai * bj
    for k in range(22, 11, -1):      # w^12 = 2 w^6 - 2
        c = t[k]
        if c:
            t[k - 6] += 2 * c
            t[k - 12] -= 2 * c
    return tuple(c % Q for c in t[:12])


def p_add(a, b):
    return tuple((x + y) % Q for x, y in zip(a, b))


def p_sub(a, b):
    return tuple((x - y) % Q for x, y in zip(a, b))


def p_scal(c):
    return (c % Q,) + (0,) * 11


def p_pow(a, e):
    if e < 0:
        return p_pow(p_inv(a), -e)
    res = P_ONE
    base = a
    while e:
        if e & 1:
            res = p_mul(res, base)
        base = p_mul(base, base)
        e >>= 1
    return res


_MOD12 = [2, 0, 0, 0, 0, 0, (-2) % Q, 0, 0, 0, 0, 0, 1]


def _deg(p):
    d = len(p) - 1
    while d >= 0 and p[d] == 0:
        d -= 1
    return d


def _pdivmod(a, b):
    a = list(a)
    db = _deg(b)
    inv = pow(b[db], -1, Q)
    qt = [0] * (max(_deg(a) - db, 0) + 1)
    while _deg(a) >= db:
        da = _deg(a)
        c = a[da] * inv % Q
        qt[da - db] = c
        for i in range(db + 1):
            a[da - db + i] = (a[da - db + i] - c * b[i]) % Q
    return qt, a


def p_inv(a):
    """Inverse in Fq[w]/(w^12-2w^6+2) by the extended Euclidean algorithm (0 -> 0)."""
    if all(c % Q == 0 for c in a):
        return P_ZERO
    r0, r1 = list(_MOD12), [c % Q for c in a] + [0]
    s0, s1 = [0], [1]
    while _deg(r1) > 0:
        qt, rem = _pdivmod(r0, r1)
        prod = [0] * (len(qt) + len(s1))
        for i, x in enumerate(qt):
            if x:
                for j, y in enumerate(s1):
                    prod[i + j] = (prod[i + j] + x * y) % Q
        n = max(len(s0), len(prod))
        s0 = s0 + [0] * (n - len(s0))
        prod = prod + [0] * (n - len(prod))
        s2 = [(x - y) % Q for x, y in zip(s0, prod)]
        r0, r1 = r1, rem
        s0, s1 = s1, s2
    c = pow(r1[0], -1, Q)
    res = [(x * c) % Q for x in s1][:12]
    res += [0] * (12 - len(res))
    return tuple(res)


def tower_to_flat(t):
    """Fq12 tower element -> flat coefficients. c[i][j] = a + b u sits at w^(2j+i)."""
    p = [0] * 12
    for i in range(2):
        for j in range(3):
            a, b = t[i][j]
            k = 2 * j + i
            p[k] = (p[k] + a - b) % Q       # a + b(w^6 - 1)
            p[k + 6] = (p[k + 6] + b) % Q
    return tuple(p)


def flat_to_tower(p):
    c = [[None] * 3 for _ in range(2)]
    for i in range(2):
        for j in range(3):
            k = 2 * j + i
            b = p[k + 6] % Q
            a = (p[k] + b) % Q
            c[i][j] = (a, b)
    return (tuple(c[0]), tuple(c[1]))


def fq2_to_fq12(a):
    return ((a, FQ2_ZERO, FQ2_ZERO), FQ6_ZERO)


def fq6_to_fq12(a):
    return (a, FQ6_ZERO)


def fq12_inv(a):
    return flat_to_tower(p_inv(tower_to_flat(a)))


def fq6_inv(a):
    r = fq12_inv((a, FQ6_ZERO))
    assert r[1] == FQ6_ZERO
    return r[0]


def fq12_pow(a, e):
    return flat_to_tower(p_pow(tower_to_flat(a), e))


def fq6_pow(a, e):
    return fq12_pow((a, FQ6_ZERO), e)[0]


_frob_cache = {}


def p_frobenius(a, k):
    """a^(q^k) via Fq-linearity: sum a_i (w^(q^k))^i."""
    k %= 12
    if k == 0:
        return tuple(c % Q for c in a)
    if k not in _frob_cache:
        wk = p_pow((0, 1) + (0,) * 10, pow(Q, k))
        pw = [P_ONE]
        for _ in range(11):
            pw.append(p_mul(pw[-1], wk))
        _frob_cache[k] = pw
    pw = _frob_cache[k]
    acc = [0] * 12
    for i, ai in enumerate(a):
        if ai:
            for j in range(12):
                acc[j] += ai * pw[i][j]
    return tuple(c % Q for c in acc)


def fq12_frobenius(a, k):
    return flat_to_tower(p_frobenius(tower_to_flat(a), k))


def fq12_conj(a):
    return fq12_frobenius(a, 6)


def self_test():
    """Identities that do not involve the library; a failure is a harness error."""
    import random
    rnd = random.Random(12345)
    assert is_prime(Q) and is_prime(R_ORDER)
    assert Q.bit_length() == 381 and R_ORDER.bit_length() == 255
    assert Q % 4 == 3
    assert (pow(Q, 12) - 1) % R_ORDER == 0 and all((pow(Q, k) - 1) % R_ORDER for k in (1, 2, 3, 4, 6))

    def r2():
        return (rnd.randrange(Q), rnd.randrange(Q))

    def r6():
        return (r2(), r2(), r2())

    def r12():
        return (r6(), r6())
    for _ in range(3):
        a, b, c = r12(), r12(), r12()
        assert fq12_mul(a, b) == fq12_mul(b, a)
        assert fq12_mul(fq12_mul(a, b), c) == fq12_mul(a, fq12_mul(b, c))
        assert fq12_mul(a, fq12_add(b, c)) == fq12_add(fq12_mul(a, b), fq12_mul(a, c))
        # flat and tower agree on products; inverse is an inverse
        assert flat_to_tower(p_mul(tower_to_flat(a), tower_to_flat(b))) == fq12_mul(a, b)
        assert flat_to_tower(tower_to_flat(a)) == a
        assert fq12_mul(a, fq12_inv(a)) == FQ12_ONE
        # Frobenius is the q-power map and a ring homomorphism
        assert fq12_frobenius(fq12_mul(a, b), 1) == fq12_mul(fq12_frobenius(a, 1), fq12_frobenius(b, 1))
    a = r12()
    assert fq12_frobenius(a, 1) == fq12_pow(a, Q)
    assert fq12_frobenius(fq12_frobenius(a, 5), 7) == a
    # u, v, w relations in the tower
    u = ((((0, 1)), FQ2_ZERO, FQ2_ZERO), FQ6_ZERO)
    assert fq12_mul(u, u) == fq12_neg(FQ12_ONE)
    w = (FQ6_ZERO, FQ6_ONE)
    v = ((FQ2_ZERO, FQ2_ONE, FQ2_ZERO), FQ6_ZERO)
    assert fq12_mul(w, w) == v
    assert fq12_mul(v, fq12_mul(v, v)) == ((XI, FQ2_ZERO, FQ2_ZERO), FQ6_ZERO)
    x = r2()
    s = fq2_sqrt(fq2_sqr(x))
    assert s in (x, fq2_neg(x))
    y = rnd.randrange(R_ORDER)
    assert fr_sqrt(y * y % R_ORDER) in (y, R_ORDER - y)
    return True
