"""Reference optimal-ate pairing on BLS12-381, from the definition.

e_lib(P, Q) = ( f_{|x|,Q}(P) ^ (3 (q^12-1)/r) ) ^ (-1)      (x < 0: inverse; exponent: reduced pairing cubed)

computed in E(Fq12) after untwisting Q with plain affine chord-and-tangent line functions.
GT values are kept in the flat representation (tuples of 12 ints) unless stated otherwise.
"""
from . import curve as C
from . import fields as F

Q = F.Q
R = F.R_ORDER
ABS_X = -F.X
FINAL_EXP = 3 * ((Q**12 - 1) // R)

_W = (0, 1) + (0,) * 10
_W2 = F.p_mul(_W, _W)
_W3 = F.p_mul(_W2, _W)
_W2I = F.p_inv(_W2)
_W3I = F.p_inv(_W3)


def _fq2_flat(a):
    return F.tower_to_flat(((a, F.FQ2_ZERO, F.FQ2_ZERO), F.FQ6_ZERO))


def untwist(Qp):
    x, y = Qp
    return (F.p_mul(_fq2_flat(x), _W2I), F.p_mul(_fq2_flat(y), _W3I))


def _line(T, S, P):
    """Line through T and S (tangent if equal) evaluated at P, all in E(Fq12) flat coordinates."""
    (x1, y1), (x2, y2) = T, S
    xp, yp = P
    if x1 != x2:
        m = F.p_mul(F.p_sub(y2, y1), F.p_inv(F.p_sub(x2, x1)))
    elif y1 == y2:
        m = F.p_mul(F.p_mul(F.p_scal(3), F.p_mul(x1, x1)), F.p_inv(F.p_mul(F.p_scal(2), y1)))
    else:
        return F.p_sub(xp, x1)
    return F.p_sub(F.p_sub(yp, y1), F.p_mul(m, F.p_sub(xp, x1)))


def _eadd(T, S):
    (x1, y1), (x2, y2) = T, S
    if x1 != x2:
        m = F.p_mul(F.p_sub(y2, y1), F.p_inv(F.p_sub(x2, x1)))
    elif y1 == y2:
        m = F.p_mul(F.p_mul(F.p_scal(3), F.p_mul(x1, x1)), F.p_inv(F.p_mul(F.p_scal(2), y1)))
    else:
        return None
    x3 = F.p_sub(F.p_sub(F.p_mul(m, m), x1), x2)
    y3 = F.p_sub(F.p_mul(m, F.p_sub(x1, x3)), y1)
    return (x3, y3)


def miller(P, Qp):
    """f_{|x|,Q}(P) for affine P in E(Fq), Q in E'(Fq2)."""
    Pp = (F.p_scal(P[0]), F.p_scal(P[1]))
    Qq = untwist(Qp)
    T = Qq
    f = F.P_ONE
    for b in bin(ABS_X)[3:]:
        f = F.p_mul(F.p_mul(f, f), _line(T, T, Pp))
        T = _eadd(T, T)
        if b == "1":
            f = F.p_mul(f, _line(T, Qq, Pp))
            T = _eadd(T, Qq)
    return f


def pairing(P, Qp):
    """Library-convention pairing value (flat)."""
    if P is None or Qp is None:
        return F.P_ONE
    f = miller(P, Qp)
    e = F.p_pow(f, FINAL_EXP)
    return F.p_inv(e)


_gt_gen = None
_gt_tab = None


def gt_generator():
    global _gt_gen
    if _gt_gen is None:
        _gt_gen = pairing(C.G1_GEN, C.G2_GEN)
    return _gt_gen


def gt_pow_gen(k):
    """GTgen^k with a fixed-base table."""
    global _gt_tab
    k %= R
    if _gt_tab is None:
        tab = []
        base = gt_generator()
        for _ in range(64):
            row = [F.P_ONE]
            for _j in range(15):
                row.append(F.p_mul(row[-1], base))
            tab.append(row)
            base = F.p_mul(row[15], base)
        _gt_tab = tab
    res = F.P_ONE
    i = 0
    while k:
        d = k & 15
        if d:
            res = F.p_mul(res, _gt_tab[i][d])
        k >>= 4
        i += 1
    return res


def self_test():
    g = gt_generator()
    assert g != F.P_ONE
    assert F.p_pow(g, R) == F.P_ONE
    P2 = C.gen_mul(1, 2)
    Q3 = C.gen_mul(2, 3)
    assert pairing(P2, Q3) == F.p_pow(g, 6)
    assert gt_pow_gen(6) == F.p_pow(g, 6)
    assert gt_pow_gen(R - 1) == F.p_inv(g)
    return True
