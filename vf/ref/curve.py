"""Reference elliptic-curve arithmetic: affine chord-and-tangent with every case written out.

E  : y^2 = x^3 + 4        over Fq   (points: None = identity, or (x, y) ints)
E' : y^2 = x^3 + 4(u+1)   over Fq2  (points: None, or (x, y) with Fq2 tuples)
"""
from . import fields as F

Q = F.Q
B1 = 4
B2 = (4, 4)

# Published generators (standard BLS12-381 generators; checked to be on the curve and of order r in self_test)
G1_GEN = (0x17f1d3a73197d7942695638c4fa9ac0fc3688c4f9774b905a14e3a3f171bac586c55e83ff97a1aeffb3af00adb22c6bb,
          0x08b3f481e3aaa0f1a09e30ed741d8ae4fcf5e095d5d00af600db18cb2c04b3edd03cc744a2888ae40caa232946c5e7e1)
G2_GEN = ((0x024aa2b2f08f0a91260805272dc51051c6e47ad4fa403b02b4510b647ae3d1770bac0326a805bbefd48056c8c121bdb8,
           0x13e02b6052719f607dacd3a088274f65596bd0d09920b61ab5da61bbdc7f5049334cf11213945d57e5ac7d055d042b7e),
          (0x0ce5d527727d6e118cc9cdc6da2e351aadfd9baa8cbdd3a76d429a695160d12c923ac9cc3baca289e193548608b82801,
           0x0606c4a02ea734cc32acd2b02bc28b99cb3e287e85a763af267492ab572e99ab3f370d275cec1da1aaa9075ff05f79be))


class G1Ops:
    name = "g1"
    zero, one = 0, 1
    b = B1

    @staticmethod
    def add(a, b):
        return (a + b) % Q

    @staticmethod
    def sub(a, b):
        return (a - b) % Q

    @staticmethod
    def mul(a, b):
        return a * b % Q

    @staticmethod
    def neg(a):
        return (-a) % Q

    @staticmethod
    def inv(a):
        return F.fq_inv(a)

    @staticmethod
    def small(k):
        return k % Q

    @staticmethod
    def sqrt(a):
        return F.fq_sqrt(a)


class G2Ops:
    name = "g2"
    zero, one = (0, 0), (1, 0)
    b = B2
    add = staticmethod(F.fq2_add)
    sub = staticmethod(F.fq2_sub)
    mul = staticmethod(F.fq2_mul)
    neg = staticmethod(F.fq2_neg)
    inv = staticmethod(F.fq2_inv)
    sqrt = staticmethod(F.fq2_sqrt)

    @staticmethod
    def small(k):
        return (k % Q, 0)


def on_curve(P, K):
    if P is None:
        return True
    x, y = P
    return K.mul(y, y) == K.add(K.mul(K.mul(x, x), x), K.b)


def neg(P, K):
    if P is None:
        return None
    return (P[0], K.neg(P[1]))


def add(P, R, K):
    """Group law, every exceptional case explicit."""
    if P is None:
        return R
    if R is None:
        return P
    x1, y1 = P
    x2, y2 = R
    if x1 == x2:
        if y1 == y2:
            if y1 == K.zero:          # 2-torsion (does not exist on these curves, kept for completeness)
                return None
            m = K.mul(K.mul(K.small(3), K.mul(x1, x1)), K.inv(K.mul(K.small(2), y1)))
        else:
            return None               # P + (-P)
    else:
        m = K.mul(K.sub(y2, y1), K.inv(K.sub(x2, x1)))
    x3 = K.sub(K.sub(K.mul(m, m), x1), x2)
    y3 = K.sub(K.mul(m, K.sub(x1, x3)), y1)
    return (x3, y3)


def dbl(P, K):
    return add(P, P, K)


def mul(P, k, K):
    """[k]P by double-and-add (k may be negative)."""
    if k < 0:
        return mul(neg(P, K), -k, K)
    res = None
    addend = P
    while k:
        if k & 1:
            res = add(res, addend, K)
        addend = add(addend, addend, K)
        k >>= 1
    return res


def lift_x(x, K, which=0):
    """A curve point with the given x (or None). which selects one of the two roots deterministically."""
    rhs = K.add(K.mul(K.mul(x, x), x), K.b)
    y = K.sqrt(rhs)
    if y is None:
        return None
    ny = K.neg(y)
    ys = sorted([y, ny])
    return (x, ys[which & 1])


_small = {}


def gen_mul(g, k):
    """[k]generator with a small cache of fixed-base windows for speed (pure reference arithmetic)."""
    K, G = (G1Ops, G1_GEN) if g == 1 else (G2Ops, G2_GEN)
    k %= F.R_ORDER
    tab = _small.get(g)
    if tab is None:
        tab = []
        base = G
        for _ in range(64):           # 4-bit windows over 256 bits
            row = [None]
            for _j in range(15):
                row.append(add(row[-1], base, K))
            tab.append(row)
            base = mul(base, 16, K)
        _small[g] = tab
    res = None
    i = 0
    while k:
        d = k & 15
        if d:
            res = add(res, tab[i][d], K)
        k >>= 4
        i += 1
    return res


def self_test():
    for K, G in ((G1Ops, G1_GEN), (G2Ops, G2_GEN)):
        assert on_curve(G, K)
        assert mul(G, F.R_ORDER, K) is None
        assert mul(G, 5, K) == add(mul(G, 2, K), mul(G, 3, K), K)
        assert add(G, neg(G, K), K) is None
    assert gen_mul(1, 12345678901234567890) == mul(G1_GEN, 12345678901234567890, G1Ops)
    assert gen_mul(2, F.R_ORDER - 1) == neg(G2_GEN, G2Ops)
    # no 2-torsion: x^3 + b has no root <=> cofactors odd
    assert F.G1_COFACTOR % 2 == 1 and F.G2_COFACTOR % 2 == 1
    # a random curve point times the curve order is the identity; times r usually is not
    P = None
    x = 5
    while P is None:
        P = lift_x(x, G1Ops)
        x += 1
    assert mul(P, F.G1_ORDER, G1Ops) is None
    P2 = None
    x2 = (3, 1)
    while P2 is None:
        P2 = lift_x(x2, G2Ops)
        x2 = (x2[0] + 1, x2[1])
    assert mul(P2, F.G2_ORDER, G2Ops) is None
    return True
