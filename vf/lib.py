"""ctypes access to a shim build of the working tree."""
import ctypes
import os
import re
import shutil

from . import build

_OPS_RE = re.compile(r"^(U|UR|RU|UI|RUI|B|BR|BRR|RB|RBR)\((\w+),\s*(\w+),\s*([^,]+?),\s*([^,]+?),\s*([^,]+?)(?:,\s*([^,]+?))?\)\s*$")


class Op:
    __slots__ = ("name", "kind", "layer", "out_t", "method", "a_t", "b_t", "a_restrict", "b_restrict", "has_arg", "returns")

    def __repr__(self):
        return "Op(%s)" % self.name


def parse_ops():
    ops = {}
    with open(os.path.join(build.VERIF, "shim", "ops.def")) as f:
        for line in f:
            m = _OPS_RE.match(line.strip())
            if not m:
                continue
            kind, name, layer, out_t, method, a_t, b_t = m.groups()
            o = Op()
            o.name, o.kind, o.layer, o.out_t, o.method, o.a_t, o.b_t = name, kind, layer, out_t.strip(), method.strip(), a_t.strip(), (b_t or "").strip() or None
            o.a_restrict = kind in ("UR", "BRR")
            o.b_restrict = kind in ("BR", "BRR", "RBR")
            o.has_arg = kind in ("UI", "RUI")
            o.returns = kind.startswith("R")
            ops[name] = o
    return ops


OPS = parse_ops()


GUARD_N = 32
JUNK_TAIL = bytes((0xA5, 0x5A, 0xC3, 0x3C)) * 16


class Scratch:
    """64-byte aligned scratch block."""

    def __init__(self, size=32768):
        self.size = size
        self._raw = ctypes.create_string_buffer(size + 256)
        base = ctypes.addressof(self._raw)
        # 64 junk bytes in front of the block: a read just before an operand sees garbage, not zeros
        self.addr = ((base + 63) & ~63) + 64
        ctypes.memmove(self.addr - 64, JUNK_TAIL, 64)
        self.ptr = ctypes.c_void_p(self.addr)

    def write(self, data, off=0):
        ctypes.memmove(self.addr + off, data, len(data))

    def write_operand(self, data):
        """Operand followed by 64 junk bytes: a read one or two words past the operand sees garbage, not the zeros of a fresh buffer."""
        ctypes.memmove(self.addr, bytes(data) + JUNK_TAIL, len(data) + len(JUNK_TAIL))

    def fill(self, byte, n):
        ctypes.memset(self.addr, byte, n)

    def arm(self, n):
        """Prepares an n-byte output object: it and the GUARD_N bytes behind it are filled with 0xCD; guard_ok(n) checks the tail."""
        ctypes.memset(self.addr, 0xCD, n + GUARD_N)

    def check_guard(self, what, n):
        tail = ctypes.string_at(self.addr + n, GUARD_N)
        if tail != b"\xCD" * GUARD_N:
            from .runner import Violation
            first = next(i for i in range(GUARD_N) if tail[i] != 0xCD)
            raise Violation("%s/output-overrun" % what, "the call wrote %d byte(s) past its %d-byte result object (first at +%d: %#x)" % (sum(1 for x in tail if x != 0xCD), n, first, tail[first]))

    def read(self, n, off=0):
        return ctypes.string_at(self.addr + off, n)

    def at(self, off):
        return ctypes.c_void_p(self.addr + off)


class Lib:
    """One loaded instance of the library + shim for a configuration.

    backend: None (as loaded; run-time dispatch), 'bmi2' or 'base' (x86-64 asm builds only)."""

    def __init__(self, cfg="asm", backend=None):
        self.cfg = cfg
        self.backend = backend
        so = build.build_shim(cfg)
        if backend is not None:
            # a private copy so that two back ends can live in one process
            alt = os.path.join(os.path.dirname(so), "libjedi_%s.so" % backend)
            if not os.path.exists(alt):
                tmp = alt + ".%d" % os.getpid()
                shutil.copyfile(so, tmp)
                os.rename(tmp, alt)
            so = alt
        self.path = so
        self.dll = ctypes.CDLL(so, mode=os.RTLD_LOCAL | os.RTLD_NOW)
        d = self.dll
        for n in ("vf_rand_requested", "vf_rand_calls", "vf_hash_calls"):
            getattr(d, n).restype = ctypes.c_uint64
        for n in ("vf_rand_fn", "vf_hash_fn"):
            getattr(d, n).restype = ctypes.c_void_p
        d.vf_sizeof.restype = ctypes.c_long
        d.vf_sizeof.argtypes = [ctypes.c_char_p]
        d.vf_const.restype = ctypes.c_long
        d.vf_const.argtypes = [ctypes.c_char_p, ctypes.c_void_p, ctypes.c_size_t]
        d.vf_hash_last.restype = ctypes.c_size_t
        d.vf_rand_set.argtypes = [ctypes.c_char_p, ctypes.c_size_t, ctypes.c_uint64]
        self.word_bits = d.vf_word_bits()
        if backend is not None:
            want = {"bmi2": 0, "base": 1}[backend]
            got = d.vf_backend(want)
            if got != want:
                raise RuntimeError("cannot select back end %s in %s (got %d)" % (backend, cfg, got))
        self.rand_fn = ctypes.c_void_p(d.vf_rand_fn())
        self.hash_fn = ctypes.c_void_p(d.vf_hash_fn())
        self._sizes = {}
        self.O = Scratch()
        self.A = Scratch()
        self.B = Scratch()
        self.C = Scratch()
        self.D = Scratch()
        self._fn = {}
        for name in OPS:
            f = getattr(d, "vf_" + name)
            f.restype = ctypes.c_long
            f.argtypes = [ctypes.c_void_p, ctypes.c_void_p, ctypes.c_void_p, ctypes.c_ulong]
            self._fn[name] = f
        self.inf_off = {1: d.vf_offsetof_infinity(0), 2: d.vf_offsetof_infinity(1)}

    def sizeof(self, t):
        s = self._sizes.get(t)
        if s is None:
            s = self.dll.vf_sizeof(t.encode())
            if s < 0:
                raise KeyError(t)
            self._sizes[t] = s
        return s

    def const(self, name):
        n = self.dll.vf_const(name.encode(), self.O.ptr, self.O.size)
        if n < 0:
            raise KeyError(name)
        return self.O.read(n)

    def fn(self, name, restype=ctypes.c_long, argtypes=None):
        f = getattr(self.dll, name)
        f.restype = restype
        if argtypes is not None:
            f.argtypes = argtypes
        return f

    def set_random(self, data=b"", seed=0):
        self.dll.vf_rand_set(data, len(data), seed & 0xFFFFFFFFFFFFFFFF)

    def rand_requested(self):
        return self.dll.vf_rand_requested()

    def hash_last(self):
        n = self.dll.vf_hash_last(self.O.ptr, self.O.size)
        return self.O.read(n)

    def op(self, name, a, b=None, arg=0, alias=None):
        """Run a table operation. alias: None, 'a' (out is a), 'b' (out is b), 'ab' (out, a, b one object), 'b=a' (a and b one object, out another).
        Returns (return value, output image)."""
        o = OPS[name]
        f = self._fn[name]
        osz = self.sizeof(o.out_t)
        A, B, O = self.A, self.B, self.O
        A.write_operand(a)
        if b is not None:
            B.write_operand(b)
        if alias is None:
            O.arm(osz)
            rv = f(O.ptr, A.ptr, B.ptr, arg)
            O.check_guard(name, osz)
            return rv, O.read(osz)
        if alias == "a":
            rv = f(A.ptr, A.ptr, B.ptr, arg)
            return rv, A.read(osz)
        if alias == "b":
            rv = f(B.ptr, A.ptr, B.ptr, arg)
            return rv, B.read(osz)
        if alias == "ab":
            rv = f(A.ptr, A.ptr, A.ptr, arg)
            return rv, A.read(osz)
        if alias == "b=a":      # both inputs are one object, the output is another
            O.arm(osz)
            rv = f(O.ptr, A.ptr, A.ptr, arg)
            O.check_guard(name, osz)
            return rv, O.read(osz)
        raise ValueError(alias)

    # convenience for hand-written shim functions: write inputs into scratch blocks, read output
    def call(self, fname, out_size, *args, restype=ctypes.c_long):
        """args: bytes objects are copied to scratch blocks A,B,C,D in order (passed as pointers),
        the string 'O' denotes the output block, ints are passed through. Returns (rv, out bytes)."""
        f = getattr(self.dll, fname)
        f.restype = restype
        blocks = [self.A, self.B, self.C, self.D]
        bi = 0
        cargs = []
        guarded = False
        for x in args:
            if isinstance(x, (bytes, bytearray)):
                blk = blocks[bi]
                bi += 1
                blk.write_operand(bytes(x))
                cargs.append(blk.ptr)
            elif x == "O":
                self.O.arm(out_size)
                cargs.append(self.O.ptr)
                guarded = True
            elif isinstance(x, int):
                cargs.append(ctypes.c_long(x))
            else:
                cargs.append(x)
        rv = f(*cargs)
        if guarded:
            self.O.check_guard(fname, out_size)
        return rv, self.O.read(out_size)


_libs = {}


def get(cfg="asm", backend=None):
    k = (cfg, backend)
    if k not in _libs:
        _libs[k] = Lib(cfg, backend)
    return _libs[k]
