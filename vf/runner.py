"""Driver machinery: workers, Hypothesis wiring, replay files, known findings, evidence."""
import hashlib
import json
import struct
import mmap
import multiprocessing as mp
import os
import sys
import time
import traceback
from collections import Counter

from hypothesis import HealthCheck, Phase, given, seed, settings

from . import build

VERIF = build.VERIF
LEVEL = "exploration"


class Violation(Exception):
    """A property violation. sig: stable signature (call site + input class)."""

    def __init__(self, sig, msg):
        super().__init__("%s: %s" % (sig, msg))
        self.sig = sig
        self.msg = msg


class HarnessError(Exception):
    pass


def expect(cond, sig, msg=""):
    if not cond:
        raise Violation(sig, msg if isinstance(msg, str) else msg())


# ---- JSON codec for cases (ints of any size, bytes, tuples) ---------------------------------
def enc(o):
    if isinstance(o, bool) or o is None or isinstance(o, str):
        return o
    if isinstance(o, int):
        return {"i": hex(o)}
    if isinstance(o, (bytes, bytearray)):
        return {"b": bytes(o).hex()}
    if isinstance(o, tuple):
        return {"t": [enc(x) for x in o]}
    if isinstance(o, list):
        return [enc(x) for x in o]
    if isinstance(o, dict):
        return {"d": {str(k): enc(v) for k, v in o.items()}}
    if isinstance(o, float):
        return {"f": o}
    raise TypeError("cannot encode %r" % type(o))


def dec(o):
    if isinstance(o, list):
        return [dec(x) for x in o]
    if isinstance(o, dict):
        if "i" in o:
            return int(o["i"], 16)
        if "b" in o:
            return bytes.fromhex(o["b"])
        if "t" in o:
            return tuple(dec(x) for x in o["t"])
        if "d" in o:
            return {k: dec(v) for k, v in o["d"].items()}
        if "f" in o:
            return o["f"]
    return o


def short(o, limit=400):
    s = json.dumps(enc(o), separators=(",", ":"))
    return s if len(s) <= limit else s[:limit] + "..."


# ---- known findings -------------------------------------------------------------------------
def load_known():
    p = os.path.join(VERIF, "known_findings.json")
    try:
        with open(p) as f:
            d = json.load(f)
    except FileNotFoundError:
        d = {}
    return d.get("known", []), d.get("fixed", [])


class Sub:
    """One generated sub-check of a property."""

    def __init__(self, name, strategy, fn, quick, thorough, configs=("asm",), thorough_configs=None, setup=None, weight=1.0, nondeterministic=False):
        self.name = name
        self.strategy = strategy
        self.fn = fn
        self.quick = quick
        self.thorough = thorough
        self.configs = configs
        self.thorough_configs = thorough_configs or configs
        self.setup = setup
        # schedule-dependent checks: no shrinking (a failing case need not fail again), one reproduction out of three suffices
        self.nondeterministic = nondeterministic


class Ctx:
    """Per-worker statistics."""

    def __init__(self, pid, tier, vseed, worker, nworkers):
        self.pid, self.tier, self.vseed, self.worker, self.nworkers = pid, tier, vseed, worker, nworkers
        self.evaluations = 0
        self.nontrivial = set()
        self.classes = Counter()
        self.per_sub = Counter()
        self.per_cfg = Counter()
        self.samples = {}
        self.known_hits = Counter()
        self.known = {}
        self.cfg = None
        self.sub = None
        self.extra = {}
        self.journal = None

    def log_case(self, case):
        """Journal the case about to run so that a crash of the library leaves a reproducer behind."""
        j = self.journal
        if j is not None:
            data = json.dumps({"subcheck": self.sub, "config": self.cfg, "case": enc(case),
                               "prov": {"worker": self.worker, "nworkers": self.nworkers, "n": getattr(self, "cur_n", 0), "tier": self.tier, "vseed": self.vseed}}).encode()
            if len(data) + 8 <= len(j) - 16:
                j[8:8 + len(data)] = data
                j[0:8] = len(data).to_bytes(8, "little")
            # heartbeat for the parent's watchdog: when this case started
            j[len(j) - 16:len(j) - 8] = struct.pack("<d", time.time())

    def idle(self):
        """No library call under watch (between cases, during set-up, generation and shrinking bookkeeping)."""
        j = self.journal
        if j is not None:
            j[len(j) - 16:len(j) - 8] = struct.pack("<d", 0.0)

    def count(self, case, nontrivial, cls=None):
        """Record one executed case. nontrivial: met the property's stated rule."""
        self.evaluations += 1
        self.per_sub[self.sub] += 1
        self.per_cfg[self.cfg] += 1
        label = "%s/%s" % (self.sub, cls) if cls else self.sub
        self.classes[label] += 1
        if nontrivial:
            h = hashlib.blake2b(json.dumps(enc(case), sort_keys=True).encode() + self.sub.encode(), digest_size=8).digest()
            self.nontrivial.add(h)
        lst = self.samples.setdefault(label, [])
        if len(lst) < 2:
            lst.append(short(case))

    def event(self, label, n=1):
        self.classes[label] += n


def _derive_seed(*parts):
    h = hashlib.sha256("/".join(str(p) for p in parts).encode()).digest()
    return int.from_bytes(h[:8], "big")


def _write_replay(pid, sub, cfg, case, v, vseed):
    d = os.environ.get("VERIF_REPLAY_DIR") or os.path.join(VERIF, "replays")
    os.makedirs(d, exist_ok=True)
    body = {"property": pid, "subcheck": sub, "config": cfg, "case": enc(case), "signature": v.sig, "message": v.msg[:2000], "seed": vseed}
    h = hashlib.sha1(json.dumps(body["case"], sort_keys=True).encode() + sub.encode()).hexdigest()[:12]
    path = os.path.join(d, "%s-%s-%s.json" % (pid, sub, h))
    with open(path, "w") as f:
        json.dump(body, f, indent=1)
    return path


def _run_sub(ctx, sub, cfg, n, libs, shrink=True):
    """Run one subcheck under Hypothesis in this worker. Returns failure tuple or None."""
    ctx.sub, ctx.cfg = sub.name, cfg
    ctx.cur_n = n
    ctx.idle()      # set-up work (loading libraries, parsing assembly listings) is not a library call under watch
    env = sub.setup(cfg) if sub.setup else libs(cfg)
    state = {"last": None}
    known = ctx.known

    def body(case):
        ctx.log_case(case)
        try:
            sub.fn(ctx, env, case)
            ctx.idle()
        except Violation as v:
            ctx.idle()
            k = known.get((ctx.pid, v.sig))
            if k is not None:
                ctx.known_hits[v.sig] += 1
                return
            state["last"] = (case, v)
            raise

    test = given(sub.strategy)(body)
    test = seed(_derive_seed(ctx.vseed, ctx.pid, sub.name, cfg, ctx.worker))(test)
    test = settings(max_examples=max(1, n), database=None, deadline=None, derandomize=False, report_multiple_bugs=False,
                    suppress_health_check=list(HealthCheck), phases=[Phase.generate] if (sub.nondeterministic or not shrink) else [Phase.generate, Phase.shrink], print_blob=False)(test)
    try:
        test()
    except Violation:
        case, v = state["last"]
        return (sub.name, cfg, case, v)
    except BaseException as e:  # harness problem or an unexpected exception inside the property
        if state["last"] is not None and (isinstance(e.__cause__, Violation) or sub.nondeterministic or type(e).__name__ in ("FlakyFailure", "Flaky")):
            case, v = state["last"]
            return (sub.name, cfg, case, v)
        raise
    return None


def san_cfg(c):
    """Under VERIF_SAN=1 every configuration is replaced by its ASan+UBSan build."""
    if os.environ.get("VERIF_SAN") != "1":
        return c
    base, _, be = c.partition(":")
    if base in ("asm", "p64", "p32"):
        base += "-san"
    return base + (":" + be if be else "")


def scale(n):
    f = float(os.environ.get("VERIF_SCALE", "1") or "1")
    return max(1, int(n * f))


def quick_extra_configs(sub):
    if getattr(sub, "setup", None) is not None and "asm" not in sub.configs:
        return []          # sub-checks with their own environment (pseudo configurations) already span the back ends
    if os.environ.get("VERIF_SAN") == "1":
        return []          # sanitizer suites (C17) choose their configurations themselves
    extra = [c for c in sub.thorough_configs if c not in sub.configs]
    # the configuration closest to the embedded target (32-bit words, ARM binding layer, unsigned plain char) for every sub-check
    # that runs on the stock library configurations
    if "asm" in sub.configs and "glue-v6m" not in extra and "glue-v6m" not in sub.configs:
        extra.append("glue-v6m")
    return extra


def _worker(mod, pid, tier, vseed, worker, nworkers, only_sub, conn, journal=None):
    try:
        ctx = Ctx(pid, tier, vseed, worker, nworkers)
        ctx.journal = journal
        kn, _ = load_known()
        ctx.known = {(k["property"], k["signature"]): k for k in kn}
        from . import lib as libmod
        failures = []
        for sub in mod.SUBCHECKS:
            if only_sub and sub.name != only_sub:
                continue
            total = scale(sub.quick if tier == "quick" else sub.thorough)
            cfgs = [(c, total) for c in (sub.configs if tier == "quick" else sub.thorough_configs)]
            if tier == "quick":
                # a tenth of the quick budget on every configuration that only the thorough tier would otherwise reach (32-bit words,
                # baseline assembly, ...): the embedded targets are 32-bit, a defect confined to that word size must not wait for the thorough tier
                cfgs += [(c, max(nworkers, total // 10)) for c in quick_extra_configs(sub)]
            for cfg, total in cfgs:
                cfg = san_cfg(cfg)
                n = total // nworkers + (1 if worker < total % nworkers else 0)
                if n <= 0:
                    continue
                fail = _run_sub(ctx, sub, cfg, n, lambda c: libmod.get(*(c.split(":") + [None])[:2]))
                if fail is not None:
                    # reported at once: a later sub-check that never returns must not swallow it
                    (s_, c_, case_, v_) = fail
                    conn.send(("partial", (s_, c_, enc(case_), v_.sig, v_.msg, {"worker": worker, "nworkers": nworkers, "n": n, "tier": tier, "vseed": vseed})))
        out = {
            "evaluations": ctx.evaluations, "nontrivial": ctx.nontrivial, "classes": ctx.classes, "per_sub": ctx.per_sub,
            "per_cfg": ctx.per_cfg, "samples": ctx.samples, "known_hits": ctx.known_hits, "extra": ctx.extra,
            "failures": [(s, c, enc(case), v.sig, v.msg) for (s, c, case, v) in failures],
        }
        if journal is not None:
            journal[len(journal) - 8:] = b"finished"
        conn.send(("ok", out))
    except BaseException:
        if journal is not None:
            journal[len(journal) - 8:] = b"finished"
        conn.send(("error", traceback.format_exc()))
    finally:
        conn.close()


def hang_seconds():
    """A library call that has not returned after this many seconds counts as not returning at all (cases take milliseconds to a
    second or two; the bound is a non-termination detector, not a performance expectation)."""
    return float(os.environ.get("VERIF_HANG_S", "150") or "150")


def replay_sequence(mod, pid, body, times=2):
    """Re-generates the exact sequence of cases one worker ran (same seed, same count, no shrinking) in a fresh process and reports
    whether it runs into a violation again. Used when a failing case passes on its own: the failure then depends on what ran before
    it (state kept between calls by the code under test - or by the harness), and the generated history is the reproducer."""
    sub = [s for s in mod.SUBCHECKS if s.name == body["subcheck"]]
    if not sub:
        raise HarnessError("unknown subcheck %s" % body["subcheck"])
    sub = sub[0]
    q = body["sequence"]
    from . import lib as libmod
    fails, msg = 0, ""
    for _ in range(times):
        r, w = os.pipe()
        child = os.fork()
        if child == 0:
            os.close(r)
            code = 0
            try:
                ctx = Ctx(pid, q["tier"], q["vseed"], q["worker"], q["nworkers"])
                fail = _run_sub(ctx, sub, body["config"], q["n"], lambda c: libmod.get(*(c.split(":") + [None])[:2]), shrink=False)
                if fail is not None:
                    os.write(w, ("%s: %s" % (fail[3].sig, fail[3].msg)).encode()[:4000])
                    code = 1
            except BaseException as e:
                os.write(w, ("harness: %r" % (e,)).encode()[:4000])
                code = 3
            os._exit(code)
        os.close(w)
        data = b""
        while True:
            chunk = os.read(r, 65536)
            if not chunk:
                break
            data += chunk
        os.close(r)
        _, status = os.waitpid(child, 0)
        if os.WIFEXITED(status) and os.WEXITSTATUS(status) == 1:
            fails += 1
            msg = data.decode(errors="replace")
        elif os.WIFSIGNALED(status) or (os.WIFEXITED(status) and os.WEXITSTATUS(status) not in (0, 3)):
            fails += 1
            msg = "%s/crash: the generated sequence ended the process" % sub.name
    return fails == times, msg


def replay_case(mod, pid, path, times=3, quiet=False):
    """Re-execute a stored case outside Hypothesis. Returns (fails_every_time, message)."""
    with open(path) as f:
        body = json.load(f)
    if body.get("sequence"):
        return replay_sequence(mod, pid, body)
    if body["subcheck"].startswith("static") and hasattr(mod, "static_checks"):
        st_ = mod.static_checks("quick", body.get("seed", 0))
        hit = [f for f in st_.get("failures", []) if f[3] == body.get("signature")]
        return (bool(hit), "%s: %s" % (hit[0][3], hit[0][4]) if hit else "")
    sub = [s for s in mod.SUBCHECKS if s.name == body["subcheck"]]
    if not sub:
        raise HarnessError("unknown subcheck %s" % body["subcheck"])
    sub = sub[0]
    case = dec(body["case"])
    from . import lib as libmod
    cfg = body.get("config") or sub.configs[0]
    if "-san" in cfg and os.environ.get("VERIF_SAN") != "1":
        cfg = cfg.replace("-san", "")
    ctx = Ctx(pid, "quick", 0, 0, 1)
    ctx.sub, ctx.cfg = sub.name, cfg
    env = sub.setup(cfg) if sub.setup else libmod.get(*(cfg.split(":") + [None])[:2])
    fails, msg = 0, ""
    for _ in range(times):
        r, w = os.pipe()
        child = os.fork()
        if child == 0:
            os.close(r)
            code = 0
            try:
                sub.fn(ctx, env, case)
            except Violation as v:
                os.write(w, ("%s: %s" % (v.sig, v.msg)).encode()[:4000])
                code = 1
            except BaseException as e:  # harness problem
                os.write(w, ("harness: %r" % (e,)).encode()[:4000])
                code = 3
            os._exit(code)
        os.close(w)
        data = b""
        hung = [False]
        limit = hang_seconds() / 2
        deadline = time.time() + limit
        import select
        while True:
            left = deadline - time.time()
            if left <= 0:
                hung[0] = True
                try:
                    os.kill(child, 9)
                except OSError:
                    pass
                break
            rd, _, _ = select.select([r], [], [], min(left, 5.0))
            if not rd:
                continue
            chunk = os.read(r, 65536)
            if not chunk:
                break
            data += chunk
        os.close(r)
        _, status = os.waitpid(child, 0)
        if hung[0]:
            fails += 1
            msg = "%s/hang: the library call did not return within %.0f s on this case (cases take milliseconds)" % (sub.name, limit)
        elif os.WIFSIGNALED(status):
            fails += 1
            msg = "%s/crash: library call terminated by signal %d" % (sub.name, os.WTERMSIG(status))
        elif os.WEXITSTATUS(status) == 1:
            fails += 1
            msg = data.decode(errors="replace")
        elif os.WEXITSTATUS(status) == 3:
            raise HarnessError(data.decode(errors="replace"))
        elif os.WEXITSTATUS(status) != 0:
            fails += 1
            msg = "%s/crash: library call ended the process with status %d (sanitizer abort?)" % (sub.name, os.WEXITSTATUS(status))
    if sub.nondeterministic:
        return fails >= 1, msg
    return fails == times, msg


def run_property(mod, pid, tier, vseed, nworkers=None, only_sub=None, extra_static=None):
    """Runs all subchecks of a property module; writes evidence; returns exit code."""
    t0 = time.time()
    nworkers = nworkers or int(os.environ.get("VERIF_WORKERS", "0")) or min(16, os.cpu_count() or 4)
    # build everything needed up-front (single process) so that workers only load
    from . import lib as libmod
    cfgs = set()
    for sub in mod.SUBCHECKS:
        for c in (list(sub.configs) + quick_extra_configs(sub) if tier == "quick" else sub.thorough_configs):
            cfgs.add(san_cfg(c).split(":")[0])
    for c in sorted(cfgs):
        if c in build.CONFIGS:
            build.build_shim(c)
    if hasattr(mod, "prebuild"):
        mod.prebuild(tier)

    static = None
    if hasattr(mod, "static_checks"):
        static = mod.static_checks(tier, vseed)   # dict: evaluations, nontrivial(list), samples, failures[(sub,case,sig,msg)], classes

    # seconds-long replay tier: committed regression inputs of this property run first
    regress = []
    rdir = os.path.join(VERIF, "replays", "regress")
    if os.path.isdir(rdir) and not only_sub:
        for fn in sorted(os.listdir(rdir)):
            if fn.startswith(pid + "-") and fn.endswith(".json"):
                path = os.path.join(rdir, fn)
                try:
                    bad, msg = replay_case(mod, pid, path)
                except HarnessError as e:
                    sys.stderr.write("HARNESS ERROR replaying %s: %s\n" % (path, e))
                    return 2
                regress.append((path, bad, msg))

    ctxp = mp.get_context("fork")
    procs = []
    for w in range(nworkers):
        pc, cc = ctxp.Pipe(duplex=False)
        jr = mmap.mmap(-1, 1 << 20)
        p = ctxp.Process(target=_worker, args=(mod, pid, tier, vseed, w, nworkers, only_sub, cc, jr))
        p.start()
        cc.close()
        procs.append((p, pc, jr))
    agg = {"evaluations": 0, "nontrivial": set(), "classes": Counter(), "per_sub": Counter(), "per_cfg": Counter(), "samples": {},
           "known_hits": Counter(), "failures": [], "extra": {}}
    errors = []
    crashes = []
    hangs = []
    # collect results as they arrive; meanwhile watch the heartbeat each worker writes when it starts a case
    from multiprocessing.connection import wait as mp_wait
    results = {}
    pending = {pc: (i, p, jr) for i, (p, pc, jr) in enumerate(procs)}
    limit = hang_seconds()
    while pending:
        ready = mp_wait(list(pending), timeout=5.0)
        for pc in ready:
            i, p, jr = pending[pc]
            try:
                kind, out = pc.recv()
            except EOFError:
                kind, out = "crash", None
            if kind == "partial":
                agg["failures"].append(out)
                continue
            results[i] = (kind, out)
            del pending[pc]
        now = time.time()
        for pc, (i, p, jr) in list(pending.items()):
            if bytes(jr[len(jr) - 8:]) == b"finished":
                continue
            ts = struct.unpack("<d", bytes(jr[len(jr) - 16:len(jr) - 8]))[0]
            if ts > 0 and now - ts > limit and p.is_alive():
                n = int.from_bytes(jr[0:8], "little")
                try:
                    os.kill(p.pid, 9)
                except OSError:
                    pass
                if n:
                    j = json.loads(bytes(jr[8:8 + n]).decode())
                    hangs.append((j["subcheck"], j["config"], j["case"], now - ts))
                results[i] = ("hang", None)
                del pending[pc]
    for i, (p, pc, jr) in enumerate(procs):
        kind, out = results[i]
        p.join()
        if kind == "hang":
            continue
        if kind == "crash":
            n = int.from_bytes(jr[0:8], "little")
            if n == 0:
                errors.append("worker died before running any case (exit code %s)" % p.exitcode)
            else:
                j = json.loads(bytes(jr[8:8 + n]).decode())
                crashes.append((j["subcheck"], j["config"], j["case"], p.exitcode, j.get("prov")))
            continue
        if kind == "error":
            errors.append(out)
            continue
        agg["evaluations"] += out["evaluations"]
        agg["nontrivial"] |= out["nontrivial"]
        agg["classes"] += out["classes"]
        agg["per_sub"] += out["per_sub"]
        agg["per_cfg"] += out["per_cfg"]
        agg["known_hits"] += out["known_hits"]
        for k, v in out["samples"].items():
            lst = agg["samples"].setdefault(k, [])
            if len(lst) < 2:
                lst.extend(v[: 2 - len(lst)])
        for k, v in out["extra"].items():
            if isinstance(v, (int, float)):
                agg["extra"][k] = agg["extra"].get(k, 0) + v
            else:
                agg["extra"].setdefault(k, v)
        agg["failures"] += out["failures"]
    if static:
        agg["evaluations"] += static.get("evaluations", 0)
        agg["nontrivial"] |= set(static.get("nontrivial", []))
        agg["classes"] += Counter(static.get("classes", {}))
        for k, v in static.get("samples", {}).items():
            agg["samples"].setdefault(k, v[:2])
        agg["failures"] += static.get("failures", [])
        agg["extra"].update(static.get("extra", {}))

    if errors:
        sys.stderr.write("HARNESS ERROR in %s:\n%s\n" % (pid, errors[0]))
        return 2
    for (s_, c_, case_enc, secs) in hangs:
        agg["failures"].append((s_, c_, case_enc, "%s/hang" % s_, "the library call did not return within %.0f s on this case (cases take milliseconds): worker stopped by the watchdog" % secs))
    for (s_, c_, case_enc, code, prov_) in crashes:
        what = "signal %d" % -code if code is not None and code < 0 else "exit code %s" % code
        agg["failures"].append((s_, c_, case_enc, "%s/crash" % s_, "the library call did not return: worker terminated by %s (memory fault / sanitizer abort / allocator integrity check) on this case" % what, prov_))

    kn, fixed = load_known()
    known = {(k["property"], k["signature"]): k for k in kn}
    violations = []
    seen = set()
    unreproduced = []
    for f_ in agg["failures"]:
        (s, c, case_enc, sig, msg), prov = f_[:5], (f_[5] if len(f_) > 5 else None)
        if (pid, sig) in known:
            agg["known_hits"][sig] += 1
            continue
        if (s, sig) in seen:
            continue
        seen.add((s, sig))
        v = Violation(sig, msg)
        path = _write_replay(pid, s, c, dec(case_enc), v, vseed)
        ok = True
        if not s.startswith("static"):
            try:
                ok, _ = replay_case(mod, pid, path)
            except Exception:
                ok = True
        if not ok and prov is not None and not sig.endswith("/hang"):
            # the case passes on its own: does the generated history that led to it fail again?
            with open(path) as fh:
                body = json.load(fh)
            body["sequence"] = prov
            body["message"] = "(fails only after the cases generated before it; replay re-generates that history) " + body["message"]
            try:
                ok, _ = replay_sequence(mod, pid, body)
            except Exception:
                ok = False
            if ok:
                with open(path, "w") as fh:
                    json.dump(body, fh, indent=1)
                msg = body["message"]
            else:
                unreproduced.append((sig, msg))
        if ok:
            violations.append((path, sig, msg))
    for sig, msg in unreproduced:
        # seen once, but neither the case alone nor the re-generated history fails again: reported, never counted as a violation
        print("UNREPRODUCED: property=%s %s: %s" % (pid, sig, msg[:300]))
    for path, bad, msg in regress:
        if bad:
            sig = msg.split(":")[0]
            if (pid, sig) in known:
                agg["known_hits"][sig] += 1
            else:
                violations.append((path, sig, msg))
    for sig, n in sorted(agg["known_hits"].items()):
        k = known.get((pid, sig))
        print("KNOWN-FINDING: property=%s %s [%s; %d cases excluded]" % (pid, k["what"] if k else sig, sig, n))
    for path, sig, msg in violations:
        print("VIOLATION property=%s replay=%s" % (pid, path))
        print("  %s: %s" % (sig, msg[:600]))

    samples = []
    for k in sorted(agg["samples"]):
        for s in agg["samples"][k][:1]:
            samples.append({"class": k, "case": s})
    evidence = {
        "property_id": pid, "tier": tier, "seed": int(vseed), "level": LEVEL,
        "coverage": {
            "evaluations": int(agg["evaluations"]),
            "distinct_nontrivial": len(agg["nontrivial"]),
            "rule": getattr(mod, "RULE", ""),
            "samples": samples[:60],
            "classes": dict(sorted(agg["classes"].items())),
            "per_subcheck": dict(sorted(agg["per_sub"].items())),
            "per_config": dict(sorted((str(k), v) for k, v in agg["per_cfg"].items())),
            "excluded_known": dict(agg["known_hits"]),
            "regression_replays": len(regress),
            "workers": nworkers,
            "exhaustive": False,
        },
        "assumptions": getattr(mod, "ASSUMPTIONS", []),
        "wall_s": round(time.time() - t0, 2),
        "violations": len(violations),
    }
    evidence["coverage"].update(agg["extra"])
    if hasattr(mod, "finish"):
        mod.finish(evidence, agg)
    os.makedirs(os.path.join(VERIF, "evidence"), exist_ok=True)
    epath = os.environ.get("VERIF_EVIDENCE_OUT") or os.path.join(VERIF, "evidence", "%s.json" % pid)
    with open(epath, "w") as f:
        json.dump(evidence, f, indent=1)
    print("%s %s: %d cases, %d distinct non-trivial, %d violations, %.1fs" % (pid, tier, evidence["coverage"]["evaluations"], evidence["coverage"]["distinct_nontrivial"], len(violations), evidence["wall_s"]))
    return 1 if violations else 0
