"""Generates /verif/MANIFEST.json from the table below (python3-vt -m vf.manifest)."""
import json
import os

from . import build

LEVEL_TEXT = ("Property-based testing: generated inputs / operation sequences searched against an explicit oracle; "
              "violations are shrunk and stored as replay files. Establishes the property on everything explored, never absence of defects.")

CHECKS = {
    "C02": dict(technique="property-based testing (Hypothesis) against a Python big-integer Montgomery model; boundary-constructed operands; inversions, roots, symbols and powers followed by related calls (in place, result as argument, negation, zero)",
                note="Trusted: Python integers, the forwarding shim. Operand domain: canonical values (< modulus) plus full-width inputs where the API accepts them.",
                ref="DESIGN.md section 4, C02"),
}

CHECKS["C04"] = dict(technique="property-based testing against a from-scratch quotient-ring reference (schoolbook products mod u^2+1, v^3-(u+1), w^2-v; Frobenius as q-power map); inversions followed by related ones (conjugates with the same norm, result as argument, in place)",
                     note="Trusted: Python integers, reference tower (self-tested without the library), pinned wire byte order of tower elements.",
                     ref="DESIGN.md section 4, C04")
CHECKS["C05"] = dict(technique="property-based testing against an affine chord-and-tangent reference with constructed exceptional pairs (P+P, P+(-P), identities, z=1, other representatives); each call followed by the same call on related arguments (negated point with the same z, other z)",
                     note="Trusted: Python integers, reference group law (self-tested without the library).",
                     ref="DESIGN.md section 4, C05")

CHECKS["C06"] = dict(technique="property-based testing against reference [k]P with boundary-structured scalars (multiples of r, 2^bits-d, runs of ones, lambda/|x| digit boundaries) plus recoding/decomposition invariants",
                     note="Trusted: Python integers, reference group law. Eigenvalue methods only get subgroup bases; PowersOfX digits in the documented range.",
                     ref="DESIGN.md section 4, C06")

CHECKS["C03"] = dict(technique="differential property-based testing: every back end executable on the host (x86-64 BMI2 and baseline asm by symbol, dispatched members with either routine set, portable 64/32-bit words, the ARM binding layers compiled for the host) against each other and a Python integer oracle; ARM assembly sources under instruction interpreters; whole-API transcripts across back ends",
                     note="Trusted: Python integers; for the ARM sources our interpreters of the ~20 mnemonics used (no ARM hardware/qemu in the sandbox).",
                     ref="DESIGN.md section 4, C03")
CHECKS["C18"] = dict(technique="differential property-based testing over the (operation x aliasing pattern) matrix generated from shim/ops.def, the irregular C++ signatures and the C API; aliased call vs distinct-output call; byte buffers and field elements that are members of the receiving object",
                     note="Trusted: the distinct-output call as specification (tied to the reference by C02-C07). __restrict operands are never aliased.",
                     ref="DESIGN.md section 4, C18")

CHECKS["C01"] = dict(technique="property-based testing with an exact-value oracle: from-scratch reference pairing (affine Miller loop, plain final exponent) and known discrete logs, e_lib([a]g1,[b]g2) == GTref^(ab); full reference pairing on a drawn subset; every host-buildable configuration (64/32-bit words, both x86-64 routine sets, ARM binding layers)",
                     note="Trusted: Python integers, reference pairing (self-tested for order r and bilinearity without the library; calibrated only through the published generator constant which is itself a checked output).",
                     ref="DESIGN.md section 4, C01")
CHECKS["C07"] = dict(technique="property-based testing against reference GT powers; structured random streams that force digit and whole-value rejections (incl. y = r); chi-square uniformity check",
                     note="Trusted: reference flat Fq12 arithmetic; GT inputs are subgroup members.",
                     ref="DESIGN.md section 4, C07")
CHECKS["C08"] = dict(technique="property-based testing over generated pair lists (mixed affine/prepared, identities, duplicates, dirty and re-used arrays) against GTref^(sum a_i b_i)",
                     note="Trusted: reference pairing / GT powers; single pairing decided by C01.",
                     ref="DESIGN.md section 4, C08")

CHECKS["C09"] = dict(technique="property-based testing with structured mutations of valid encodings against a reference decoder (canonical bytes, curve equation, subgroup by reference [r]P), plus round-trip and cross-form oracles and related follow-up calls (other decoder of the same length, negated point)",
                     note="Trusted: reference curve arithmetic; the greater-flag convention is taken from the library's own encoder.",
                     ref="DESIGN.md section 4, C09")

CHECKS["C10"] = dict(technique="property-based testing: reference try-and-increment (Legendre by exponentiation) and masked single reduction as oracles, membership predicates by reference [r]P, structured random streams forcing rejections, cross-back-end determinism, samplers repeated on the same stream, a caller's own use of the shared multiplications beforehand",
                     note="Trusted: reference field/curve arithmetic. The choice between the two roots y is not constrained.",
                     ref="DESIGN.md section 4, C10")

CHECKS["C11"] = dict(technique="model-based (stateful) property-based testing: generated delegation histories with attribute lists constructed from the model pattern; slot-pattern model + pairing-equation validity predicates + decryption round trips after every step; guard slots behind the documented allocations",
                     note="Trusted: the library's group operations / pairing as lower layer (decided by C01/C05/C06); documented input domain for attribute lists.",
                     ref="DESIGN.md section 4, C11")

CHECKS["C12"] = dict(technique="model-based property-based testing: generated histories plus one negative probe (single-slot pattern mismatch, hidden-slot filling attempt through each entry point, single-component ciphertext tampering); decryption succeeds iff effective patterns agree",
                     note="Trusted: as C11; a negative expectation can be wrong with probability ~2^-255.",
                     ref="DESIGN.md section 4, C12")
CHECKS["C13"] = dict(technique="model-based property-based testing: generated keys, extension lists, messages and single-field perturbations; verify <=> (list, message mod r) unchanged; direct vs precomputed forms agree",
                     note="Trusted: as C11; only parameters with signature support.",
                     ref="DESIGN.md section 4, C13")
CHECKS["C14"] = dict(technique="metamorphic property-based testing: chains of generated list edits; incremental result == recomputation from scratch (group-element equality / component-wise key equality); precomputed vs direct forms interchangeable",
                     note="Trusted: library group equality; lists for adjust_nondelegable are interpreted without the omit-all flag.",
                     ref="DESIGN.md section 4, C14")

CHECKS["C15"] = dict(technique="round-trip property-based testing over generated scheme objects (synthetic keys with arbitrary 32-bit slot indices, all slot counts, both encodings), exhaustive enumeration of the length functions, structured single-element corruptions that checked unmarshal must reject",
                     note="Trusted: reference points/encodings; observed wire layout; GT fields excluded from the corruption set.",
                     ref="DESIGN.md section 4, C15")
CHECKS["C16"] = dict(technique="property-based testing with a recording hash callback: hash inputs of encrypt and decrypt equal each other and the value assembled from public outputs; sk == [s mod r]Q by the reference; negative probes must change the hashed bytes",
                     note="Trusted: reference group law, library pairing (C01; reference pairing on a subset).",
                     ref="DESIGN.md section 4, C16")

CHECKS["C17"] = dict(technique="coverage-guided fuzzing (libFuzzer + ASan + UBSan) of the length-discovery/unmarshal protocol with a round-trip oracle in the target, plus the Hypothesis suites re-run against ASan+UBSan builds of the library",
                     engine="libfuzzer+sanitizers",
                     note="Trusted: sanitizer detection of the access classes; 32-bit-word configuration on a 64-bit host; fuzz campaigns are pinned only approximately by -seed (saved artifacts are the reproducible unit).",
                     ref="DESIGN.md section 4, C17")

CHECKS["C19"] = dict(technique="exhaustive enumeration of layout static_asserts over five target ABIs plus generated differential testing of every extern-C function against the C++ operation it forwards to (byte-identical outputs, equal random streams), whole-history transcripts for the schemes, marshalling wrappers on synthetic objects and corrupted buffers",
                     note="Trusted: clang's layout computation for the cross targets (compile-only); the Go layer cannot be built here.",
                     ref="DESIGN.md section 4, C19")

CHECKS["C20"] = dict(technique="exhaustive symbol audit (nm) of every object file over compiler x back end x word size x optimisation level plus a thumbv6m cross build; generated concurrent workloads executed under ThreadSanitizer and compared with sequential results",
                     engine="hypothesis+tsan-driver",
                     note="Trusted: TSan's happens-before analysis; schedules are sampled; allowlists: mem* primitives, compiler arithmetic helpers, the known never-written writable globals.",
                     ref="DESIGN.md section 4, C20")

PENDING = {}


def main():
    props = [json.loads(l) for l in open(os.path.join(build.VERIF, "properties.jsonl"))]
    checks = []
    na = []
    for p in props:
        pid = p["id"]
        if pid in CHECKS:
            c = CHECKS[pid]
            checks.append({
                "property_id": pid,
                "quick_cmd": "./check %s --tier quick" % pid,
                "thorough_cmd": "./check %s --tier thorough" % pid,
                "evidence_file": "/verif/evidence/%s.json" % pid,
                "replay_cmd_template": "./check %s --replay {path}" % pid,
                "engine": c.get("engine", "hypothesis+ctypes-shim"),
                "level_claimed": {"category": "exploration", "text": c.get("text", LEVEL_TEXT), "design_ref": c["ref"]},
                "level_note": c["note"],
                "technique": c["technique"],
            })
        else:
            na.append({"property_id": pid, "reason": PENDING.get(pid, "check not built yet in this revision of /verif (planned: see DESIGN.md section 4)")})
    m = {
        "version": 1,
        "setup_cmd": "./check --setup",
        "hooks": {
            "guard": build.GUARD,
            "enable": "checks compile the working tree's sources themselves with -D%s (no guarded code exists in /repo at present)" % build.GUARD,
            "baseline_off_cmd": "make -C /repo/tests clean all && cd /repo/tests && ./test",
            "source_commits": [],
            "add_only": True,
        },
        "engines": [
            {"name": "hypothesis+ctypes-shim", "path": "/verif/vf", "serves_properties": sorted(k for k, v in CHECKS.items() if v.get("engine", "hypothesis+ctypes-shim") == "hypothesis+ctypes-shim"),
             "kind_free_text": "Hypothesis 6.168 strategies driving a ctypes shim built from /repo's working tree; oracle = from-scratch Python reference (vf/ref)"},
        ],
        "checks": checks,
        "notes": "Driver: /verif/check. Known findings: /verif/known_findings.json. Seeded changes: /verif/seeded/.",
        "not_applicable": na,
    }
    extra = sorted({v["engine"] for v in CHECKS.values() if "engine" in v})
    for e in extra:
        m["engines"].append({"name": e, "path": "/verif/vf", "serves_properties": sorted(k for k, v in CHECKS.items() if v.get("engine") == e), "kind_free_text": ENGINE_TEXT.get(e, e)})
    with open(os.path.join(build.VERIF, "MANIFEST.json"), "w") as f:
        json.dump(m, f, indent=1)
    try:
        import jsonschema
        jsonschema.validate(m, json.load(open("/root/.vp/MANIFEST.schema.json")))
        print("MANIFEST.json valid; %d checks, %d not_applicable" % (len(checks), len(na)))
    except ImportError:
        pass


ENGINE_TEXT = {"hypothesis+tsan-driver": "Hypothesis-generated workloads fed to conc/tsan_driver.cpp, built from the working tree with clang -fsanitize=thread (portable and assembly builds); nm-based symbol audit", "libfuzzer+sanitizers": "clang libFuzzer target fuzz/fz_unmarshal.cpp built with -fsanitize=fuzzer,address,undefined from the working tree; g++ ASan+UBSan shim builds preloaded into the Hypothesis workers"}

if __name__ == "__main__":
    main()
