"""Minimal AArch64 interpreter for the shipped assembly routines (C03).

The working tree's .s files are assembled by clang --target=aarch64-linux-gnu and the interpreter executes the
llvm-objdump listing (real encodings, macros already expanded). Only the ~15 mnemonics these routines use are
implemented, per the Arm ARM: adds/adcs/subs/sbcs/cmp/cmn (NZCV), add/sub, mul/umulh, ldp/stp/ldr/str with offset,
pre- and post-index addressing, cset, mov, b.<cond>, b, ret. Anything else raises (harness error, not a violation).
"""
import os
import re
import subprocess

from .. import build

M64 = (1 << 64) - 1


class A64Error(Exception):
    pass


def assemble(paths):
    """Assemble and disassemble; returns {symbol: [(addr, mnemonic, operand string)]} and label addresses."""
    r = build.repo()
    h = build.tree_hash()
    out_dir = os.path.join(build.BUILD, "a64-%s" % h.hexdigest()[:20])
    os.makedirs(out_dir, exist_ok=True)
    insns = {}
    for p in paths:
        o = os.path.join(out_dir, os.path.basename(p) + ".o")
        if not os.path.exists(o):
            tmp = o + ".tmp%d" % os.getpid()
            build._run(["clang", "--target=aarch64-linux-gnu", "-c", p, "-o", tmp])
            os.rename(tmp, o)
        txt = subprocess.run(["llvm-objdump", "-d", "--no-show-raw-insn", o], stdout=subprocess.PIPE, text=True, check=True).stdout
        cur = None
        for line in txt.splitlines():
            m = re.match(r"^([0-9a-f]+) <([^>]+)>:", line)
            if m:
                cur = (os.path.basename(p), m.group(2))
                continue
            m = re.match(r"^\s*([0-9a-f]+):\s+(\S+)\s*(.*)$", line)
            if m and cur:
                insns.setdefault(os.path.basename(p), []).append((int(m.group(1), 16), m.group(2), m.group(3).strip(), cur[1]))
    build._prune("a64", 2)
    return insns


def _reg(tok):
    tok = tok.strip()
    if tok in ("xzr", "wzr"):
        return 31
    if tok == "sp":
        return 32
    if tok[0] == "x":
        return int(tok[1:])
    raise A64Error("register " + tok)


COND = {"eq": lambda n, z, c, v: z, "ne": lambda n, z, c, v: not z, "hs": lambda n, z, c, v: c, "cs": lambda n, z, c, v: c,
        "lo": lambda n, z, c, v: not c, "cc": lambda n, z, c, v: not c, "hi": lambda n, z, c, v: c and not z, "ls": lambda n, z, c, v: (not c) or z,
        "mi": lambda n, z, c, v: n, "pl": lambda n, z, c, v: not n}


class Program:
    def __init__(self, listing):
        """listing: [(addr, mnemonic, operands, symbol)] of one object file."""
        self.code = {}
        self.entry = {}
        for addr, mn, ops, sym in listing:
            self.code[addr] = self._decode(mn, ops)
            self.entry.setdefault(sym, addr)

    def _mem(self, s):
        """[xn], #imm | [xn, #imm] | [xn, #imm]! | [xn] -> (base, offset, mode) mode: 0 offset, 1 pre, 2 post."""
        m = re.match(r"^\[(\w+)\],\s*#(-?\d+)$", s)
        if m:
            return _reg(m.group(1)), int(m.group(2)), 2
        m = re.match(r"^\[(\w+),\s*#(-?\d+)\]!$", s)
        if m:
            return _reg(m.group(1)), int(m.group(2)), 1
        m = re.match(r"^\[(\w+),\s*#(-?\d+)\]$", s)
        if m:
            return _reg(m.group(1)), int(m.group(2)), 0
        m = re.match(r"^\[(\w+)\]$", s)
        if m:
            return _reg(m.group(1)), 0, 0
        raise A64Error("addressing " + s)

    def _decode(self, mn, ops):
        if mn in ("ldp", "stp"):
            a, b, rest = ops.split(",", 2)
            return (mn, _reg(a), _reg(b), self._mem(rest.strip()))
        if mn in ("ldr", "str"):
            a, rest = ops.split(",", 1)
            return (mn, _reg(a), self._mem(rest.strip()))
        if mn in ("adds", "adcs", "subs", "sbcs", "add", "sub", "mul", "umulh", "adc", "sbc"):
            d, n, m = [t.strip() for t in ops.split(",")[:3]]
            if m.startswith("#"):
                return (mn, _reg(d), _reg(n), ("imm", int(m[1:], 0)))
            return (mn, _reg(d), _reg(n), ("reg", _reg(m)))
        if mn in ("cmp", "cmn"):
            n, m = [t.strip() for t in ops.split(",")[:2]]
            return (mn, _reg(n), ("imm", int(m[1:], 0)) if m.startswith("#") else ("reg", _reg(m)))
        if mn == "cset":
            d, c = [t.strip() for t in ops.split(",")]
            return (mn, _reg(d), c)
        if mn == "mov":
            d, s = [t.strip() for t in ops.split(",")]
            return (mn, _reg(d), ("imm", int(s[1:], 0)) if s.startswith("#") else ("reg", _reg(s)))
        if mn.startswith("b."):
            return ("bcond", mn[2:], int(ops.split()[0], 16))
        if mn == "b":
            return ("b", int(ops.split()[0], 16))
        if mn == "ret":
            return ("ret",)
        raise A64Error("unsupported instruction: %s %s" % (mn, ops))


class Machine:
    STACK_TOP = 0xF000
    SIZE = 0x10000

    def __init__(self, program):
        self.p = program
        self.mem = bytearray(self.SIZE)
        self.allowed = []

    def run(self, symbol, args, regions):
        """args: register values x0..; regions: [(addr, size)] the routine may touch besides its stack frame."""
        x = [0] * 33
        for i, a in enumerate(args):
            x[i] = a
        for i in range(19, 31):
            x[i] = 0xC0DE0000 + i          # callee-saved sentinels
        x[32] = self.STACK_TOP
        x[30] = 0xFFFF0                     # return address sentinel
        saved = list(x)
        n = z = False
        c = v = bool(getattr(self, "init_flags", False))      # flags at entry are whatever the caller left (not part of the ABI)
        mem = self.mem
        pc = self.p.entry[symbol]
        code = self.p.code
        lo_stack = self.STACK_TOP - 0x400
        # the frame starts as junk on every run (see thumb.py)
        mem[lo_stack:self.STACK_TOP] = b"\xA5\x5A\xC3\x3C" * ((self.STACK_TOP - lo_stack) // 4)

        def chk(addr, size):
            if lo_stack <= addr and addr + size <= self.STACK_TOP:
                return
            for a, s in regions:
                if a <= addr and addr + size <= a + s:
                    return
            raise MemoryFault("access of %d bytes at %#x outside the argument buffers and the frame (pc=%#x)" % (size, addr, pc))

        def rd(r):
            return 0 if r == 31 else x[r]

        steps = 0
        while True:
            steps += 1
            if steps > 20000:
                raise A64Error("runaway")
            ins = code.get(pc)
            if ins is None:
                raise A64Error("pc %#x outside the routine" % pc)
            op = ins[0]
            npc = pc + 4
            if op in ("adds", "adcs", "subs", "sbcs", "add", "sub", "adc", "sbc"):
                _, d, a, (k, m) = ins
                av = rd(a)
                bv = m if k == "imm" else rd(m)
                if op in ("adds", "add"):
                    full = av + bv
                elif op in ("adcs", "adc"):
                    full = av + bv + (1 if c else 0)
                elif op in ("subs", "sub"):
                    full = av + ((~bv) & M64) + 1
                else:
                    full = av + ((~bv) & M64) + (1 if c else 0)
                res = full & M64
                if op.endswith("s"):
                    c = full > M64
                    n = bool(res >> 63)
                    z = res == 0
                    sa, sb = av >> 63, (bv if op in ("adds", "adcs") else (~bv) & M64) >> 63
                    v = (sa == sb) and ((res >> 63) != sa)
                if d != 31:
                    x[d] = res
            elif op == "mul":
                _, d, a, (k, m) = ins
                if d != 31:
                    x[d] = (rd(a) * rd(m)) & M64
            elif op == "umulh":
                _, d, a, (k, m) = ins
                if d != 31:
                    x[d] = (rd(a) * rd(m)) >> 64
            elif op in ("cmp", "cmn"):
                _, a, (k, m) = ins
                av = rd(a)
                bv = m if k == "imm" else rd(m)
                if op == "cmp":
                    full = av + ((~bv) & M64) + 1
                else:
                    full = av + bv
                res = full & M64
                c = full > M64
                n = bool(res >> 63)
                z = res == 0
            elif op in ("ldp", "stp"):
                _, r1, r2, (base, off, mode) = ins
                addr = x[base] if base == 32 else rd(base)
                ea = addr + off if mode in (0, 1) else addr
                chk(ea, 16)
                if op == "ldp":
                    v1 = int.from_bytes(mem[ea:ea + 8], "little")
                    v2 = int.from_bytes(mem[ea + 8:ea + 16], "little")
                    if r1 != 31:
                        x[r1] = v1
                    if r2 != 31:
                        x[r2] = v2
                else:
                    mem[ea:ea + 8] = rd(r1).to_bytes(8, "little")
                    mem[ea + 8:ea + 16] = rd(r2).to_bytes(8, "little")
                if mode in (1, 2):
                    x[base] = (addr + off) & M64
            elif op in ("ldr", "str"):
                _, r1, (base, off, mode) = ins
                addr = x[base] if base == 32 else rd(base)
                ea = addr + off if mode in (0, 1) else addr
                chk(ea, 8)
                if op == "ldr":
                    if r1 != 31:
                        x[r1] = int.from_bytes(mem[ea:ea + 8], "little")
                else:
                    mem[ea:ea + 8] = rd(r1).to_bytes(8, "little")
                if mode in (1, 2):
                    x[base] = (addr + off) & M64
            elif op == "cset":
                _, d, cond = ins
                x[d] = 1 if COND[cond](n, z, c, v) else 0
            elif op == "mov":
                _, d, (k, m) = ins
                val = m if k == "imm" else (x[32] if m == 32 else rd(m))
                x[d] = val & M64
            elif op == "bcond":
                if COND[ins[1]](n, z, c, v):
                    npc = ins[2]
            elif op == "b":
                npc = ins[1]
            elif op == "ret":
                break
            pc = npc
        # AAPCS64: callee-saved registers and the stack pointer are restored
        for i in list(range(19, 30)) + [32]:
            if x[i] != saved[i]:
                raise AbiFault("x%d / sp not restored on return (%#x != %#x)" % (i, x[i], saved[i]))
        return x[0]


class MemoryFault(Exception):
    pass


class AbiFault(Exception):
    pass
