"""Minimal ARMv6-M (Thumb-1) interpreter for the shipped Cortex-M0+ assembly routines (C03).

clang cannot assemble the GNU divided-syntax Thumb source, so this module reads the source text itself: it expands
.macro/.endm (with \\arg substitution, nested) and evaluates the immediate expressions, then executes Thumb-1
semantics per the ARMv6-M Architecture Reference Manual for the ~20 mnemonics used. In divided (pre-UAL) syntax the
16-bit data-processing instructions on low registers set the flags: add/sub/adc/sbc/neg (NZCV), eor/mul (NZ),
lsl/lsr by immediate (NZC). `mov lo, lo` is ambiguous between old gas (flag-setting) and UAL (not): `mov_sets_flags`
selects, the check runs both. Hi-register forms, sp-relative forms, uxth, ldr/str/ldm/stm/push/pop, bl, bx do not
set flags.
"""
import re

M32 = 0xFFFFFFFF


class ThumbError(Exception):
    pass


class MemoryFault(Exception):
    pass


class AbiFault(Exception):
    pass


def _strip(line):
    line = line.split("@")[0]
    if "//" in line:
        line = line.split("//")[0]
    return line.strip()


def expand(text):
    """Macro expansion. Returns {label: [instruction strings]} in program order per global label."""
    lines = [_strip(l) for l in text.splitlines()]
    lines = [l for l in lines if l and not l.startswith(("/*", "*"))]
    macros = {}
    out = []
    i = 0
    while i < len(lines):
        l = lines[i]
        if l.startswith(".macro"):
            parts = l[len(".macro"):].strip().replace(",", " ").split()
            name, params = parts[0], parts[1:]
            body = []
            i += 1
            while not lines[i].startswith(".endm"):
                body.append(lines[i])
                i += 1
            macros[name] = (params, body)
        else:
            out.append(l)
        i += 1

    def subst(body, params, args):
        res = []
        for b in body:
            for p_, a in sorted(zip(params, args), key=lambda t: -len(t[0])):
                b = b.replace("\\" + p_, a)
            res.append(b)
        return res

    def split_args(s):
        args, depth, cur = [], 0, ""
        for ch in s:
            if ch in "([{":
                depth += 1
            if ch in ")]}":
                depth -= 1
            if ch == "," and depth == 0:
                args.append(cur.strip())
                cur = ""
            else:
                cur += ch
        if cur.strip():
            args.append(cur.strip())
        return args

    def emit(l, dst, depth=0):
        if depth > 20:
            raise ThumbError("macro recursion")
        head = l.split(None, 1)
        name = head[0]
        if name in macros:
            params, body = macros[name]
            args = split_args(head[1]) if len(head) > 1 else []
            if len(args) != len(params):
                raise ThumbError("macro %s expects %d arguments, got %r" % (name, len(params), args))
            for b in subst(body, params, args):
                emit(b, dst, depth + 1)
        else:
            dst.append(l)

    prog = {}
    cur = None
    for l in out:
        if l.startswith("."):
            continue
        m = re.match(r"^([A-Za-z_][\w]*):$", l)
        if m:
            cur = m.group(1)
            prog[cur] = []
            continue
        if cur is None:
            continue
        emit(l, prog[cur])
    return prog


def _eval(expr):
    expr = expr.strip()
    if not re.match(r"^[\d\s+\-*()xXa-fA-F]+$", expr):
        raise ThumbError("immediate expression " + expr)
    return int(eval(expr, {"__builtins__": {}}, {}))


REGS = {"r%d" % i: i for i in range(16)}
REGS.update(sp=13, lr=14, pc=15)


def _r(tok):
    tok = tok.strip()
    if tok not in REGS:
        raise ThumbError("register " + tok)
    return REGS[tok]


def _reglist(s):
    s = s.strip()
    assert s[0] == "{" and s[-1] == "}"
    regs = []
    for part in s[1:-1].split(","):
        part = part.strip()
        if "-" in part:
            a, b = part.split("-")
            regs += list(range(_r(a), _r(b) + 1))
        else:
            regs.append(_r(part))
    return sorted(regs)


def decode(l):
    head = l.split(None, 1)
    mn = head[0]
    ops = head[1] if len(head) > 1 else ""
    if mn in ("push", "pop"):
        return (mn, _reglist(ops))
    if mn in ("ldm", "stm"):
        base, lst = ops.split(",", 1)
        base = base.strip()
        wb = base.endswith("!")
        return (mn, _r(base.rstrip("!")), _reglist(lst), wb)
    if mn in ("ldr", "str"):
        rt, mem = ops.split(",", 1)
        m = re.match(r"^\s*\[\s*(\w+)\s*(?:,\s*#(.+))?\]\s*$", mem)
        if not m:
            raise ThumbError("addressing " + l)
        return (mn, _r(rt), _r(m.group(1)), _eval(m.group(2)) if m.group(2) else 0)
    if mn in ("bl", "b"):
        return (mn, ops.strip())
    if mn == "bx":
        return (mn, _r(ops))
    toks = [t.strip() for t in ops.split(",")]
    if mn in ("add", "sub", "adc", "sbc", "eor", "mul", "lsl", "lsr", "and", "orr"):
        if len(toks) == 2:
            toks = [toks[0], toks[0], toks[1]]
        d, n, m = toks
        if m.startswith("#"):
            return (mn, _r(d), _r(n), ("imm", _eval(m[1:])))
        return (mn, _r(d), _r(n), ("reg", _r(m)))
    if mn in ("mov", "neg", "uxth", "mvn", "cmp"):
        d, m = toks
        if m.startswith("#"):
            return (mn, _r(d), ("imm", _eval(m[1:])))
        return (mn, _r(d), ("reg", _r(m)))
    raise ThumbError("unsupported instruction: " + l)


class Program:
    def __init__(self, texts):
        self.routines = {}
        for t in texts:
            for label, ins in expand(t).items():
                self.routines[label] = [decode(l) for l in ins]


class Machine:
    STACK_TOP = 0xF000
    SIZE = 0x10100

    def __init__(self, program, host_calls=None, mov_sets_flags=False):
        self.p = program
        self.mem = bytearray(self.SIZE)
        self.host = host_calls or {}
        self.mov_flags = mov_sets_flags
        self.caller_frame_reads = 0

    def run(self, symbol, args, regions, stack_args=()):
        r = [0] * 16
        for i, a in enumerate(args):
            r[i] = a & M32
        for i in range(4, 12):
            r[i] = 0xC0DE0000 + i
        sp0 = self.STACK_TOP - 4 * len(stack_args)
        for i, a in enumerate(stack_args):
            self.mem[sp0 + 4 * i:sp0 + 4 * i + 4] = (a & M32).to_bytes(4, "little")
        r[13] = sp0
        r[14] = 0xFFFF1
        saved = list(r)
        mem = self.mem
        lo_stack = self.STACK_TOP - 0x800
        # nothing may leak from one run into the next: the frame starts as junk, so a frame word that is read before it was
        # written yields the same wrong value on every run (and in the replay), not the previous case's data
        mem[lo_stack:sp0] = b"\xA5\x5A\xC3\x3C" * ((sp0 - lo_stack) // 4)
        n = z = False
        c = v = bool(getattr(self, "init_flags", False))      # flags at entry are whatever the caller left (not part of the ABI)
        code = self.p.routines[symbol]
        pc = 0

        def chk(addr, size, write):
            if addr % 4:
                raise MemoryFault("misaligned word access at %#x" % addr)
            if lo_stack <= addr and addr + size <= self.STACK_TOP:
                return
            if not write and self.STACK_TOP <= addr < self.STACK_TOP + 64:
                # a load from the caller's frame (e.g. a stack-argument slot the routine does not have): mapped memory on any
                # real target, the value is dead in the shipped code; recorded, not a fault
                self.caller_frame_reads += 1
                return
            for a, s in regions:
                if a <= addr and addr + size <= a + s:
                    return
            raise MemoryFault("%s of %d bytes at %#x outside the argument buffers and the frame (%s, instruction %d)" % ("store" if write else "load", size, addr, symbol, pc))

        def ld(addr):
            chk(addr, 4, False)
            return int.from_bytes(mem[addr:addr + 4], "little")

        def st(addr, val):
            chk(addr, 4, True)
            mem[addr:addr + 4] = (val & M32).to_bytes(4, "little")

        steps = 0
        while True:
            steps += 1
            if steps > 200000:
                raise ThumbError("runaway")
            if pc >= len(code):
                raise ThumbError("fell off the end of " + symbol)
            ins = code[pc]
            pc += 1
            op = ins[0]
            if op in ("add", "sub", "adc", "sbc"):
                _, d, a, (k, m) = ins
                av = r[a]
                bv = m if k == "imm" else r[m]
                hi = d >= 8 or a >= 8 or (k == "reg" and m >= 8)
                if op == "add":
                    full = av + bv
                elif op == "adc":
                    full = av + bv + (1 if c else 0)
                elif op == "sub":
                    full = av + ((~bv) & M32) + 1
                else:
                    full = av + ((~bv) & M32) + (1 if c else 0)
                res = full & M32
                if not hi:
                    c = full > M32
                    n = bool(res >> 31)
                    z = res == 0
                    sb = (bv if op in ("add", "adc") else (~bv) & M32) >> 31
                    v = ((av >> 31) == sb) and ((res >> 31) != (av >> 31))
                r[d] = res
            elif op == "neg":
                _, d, (k, m) = ins
                bv = r[m]
                full = 0 + ((~bv) & M32) + 1
                res = full & M32
                c = full > M32
                n = bool(res >> 31)
                z = res == 0
                r[d] = res
            elif op in ("eor", "and", "orr"):
                _, d, a, (k, m) = ins
                bv = m if k == "imm" else r[m]
                res = (r[a] ^ bv) if op == "eor" else (r[a] & bv) if op == "and" else (r[a] | bv)
                n = bool(res >> 31)
                z = res == 0
                r[d] = res
            elif op == "mul":
                _, d, a, (k, m) = ins
                res = (r[a] * r[m]) & M32
                n = bool(res >> 31)
                z = res == 0
                r[d] = res
            elif op in ("lsl", "lsr"):
                _, d, a, (k, m) = ins
                sh = m if k == "imm" else (r[m] & 0xFF)
                val = r[a]
                if op == "lsl":
                    if sh:
                        c = bool((val >> (32 - sh)) & 1) if sh <= 32 else False
                    res = (val << sh) & M32
                else:
                    if sh:
                        c = bool((val >> (sh - 1)) & 1) if sh <= 32 else False
                    res = val >> sh
                n = bool(res >> 31)
                z = res == 0
                r[d] = res
            elif op == "uxth":
                _, d, (k, m) = ins
                r[d] = r[m] & 0xFFFF
            elif op == "mov":
                _, d, (k, m) = ins
                val = m if k == "imm" else r[m]
                r[d] = val & M32
                if k == "imm" or (self.mov_flags and d < 8 and m < 8):
                    n = bool(r[d] >> 31)
                    z = r[d] == 0
            elif op == "ldr":
                _, t, b, off = ins
                r[t] = ld(r[b] + off)
            elif op == "str":
                _, t, b, off = ins
                st(r[b] + off, r[t])
            elif op == "ldm":
                _, b, lst, wb = ins
                addr = r[b]
                for reg in lst:
                    r[reg] = ld(addr)
                    addr += 4
                if wb and b not in lst:
                    r[b] = addr & M32
            elif op == "stm":
                _, b, lst, wb = ins
                addr = r[b]
                for reg in lst:
                    st(addr, r[reg])
                    addr += 4
                if wb:
                    r[b] = addr & M32
            elif op == "push":
                lst = ins[1]
                addr = r[13] - 4 * len(lst)
                r[13] = addr
                for reg in lst:
                    st(addr, r[reg])
                    addr += 4
            elif op == "pop":
                lst = ins[1]
                addr = r[13]
                ret = False
                for reg in lst:
                    val = ld(addr)
                    addr += 4
                    if reg == 15:
                        if val != saved[14]:
                            raise AbiFault("pop pc with a corrupted return address %#x" % val)
                        ret = True
                    else:
                        r[reg] = val
                r[13] = addr
                if ret:
                    break
            elif op == "bl":
                fn = self.host.get(ins[1])
                if fn is None:
                    raise ThumbError("call to unknown symbol " + ins[1])
                before = list(r)
                r[0] = fn(self, r[0], r[1], r[2], r[3]) or 0
                # the C++ callee may clobber r1-r3, r12, lr and the flags
                r[1] = r[2] = r[3] = r[12] = 0xDEAD0000
                n = z = c = v = True
            elif op == "bx":
                if r[ins[1]] != saved[14]:
                    raise AbiFault("bx to %#x, expected the return address" % r[ins[1]])
                break
            else:
                raise ThumbError("unhandled " + repr(ins))
        for i in list(range(4, 12)) + [13]:
            if r[i] != saved[i]:
                raise AbiFault("r%d not restored on return (%#x != %#x) in %s" % (i, r[i], saved[i], symbol))
        return r[0]
