"""Python side of the WKD-IBE shim: object handles, attribute lists, the slot-pattern model and validity predicates."""
import ctypes

from . import conv
from .ref import fields as F

R = F.R_ORDER
VP = ctypes.c_void_p
API = "embedded_pairing_bls12_381_"

FREE, HIDDEN = "free", "hidden"


# ---- attribute lists ----------------------------------------------------------------------------
class Attrs:
    """entries: list of (idx, id or None) sorted by idx; None = hidden (omitFromKeys, id 0). omit_all: list flag."""

    def __init__(self, entries, omit_all=False):
        """entries: (idx, id) with id None = hidden (flag set, id 0), or (idx, id, flag) to set the flag together with a value."""
        self.entries = []
        self.flags = []
        for e in entries:
            i, v = e[0], e[1]
            self.entries.append((int(i), (None if v is None else int(v))))
            self.flags.append(bool(e[2]) if len(e) > 2 else v is None)
        self.omit_all = bool(omit_all)

    def c_args(self):
        n = len(self.entries)
        ids = b"".join(conv.bi(0 if v is None else v, 256) for _, v in self.entries)
        idxs = (ctypes.c_uint32 * max(n, 1))(*[i for i, _ in self.entries])
        omits = bytes(1 if f else 0 for f in self.flags)
        return [ids, idxs, omits, ctypes.c_size_t(n), ctypes.c_int(1 if self.omit_all else 0)]

    def __len__(self):
        return len(self.entries)

    def describe(self):
        return "[%s]%s" % (", ".join("%d:%s" % (i, "hidden" if v is None else hex(v)) for i, v in self.entries), " omitAll" if self.omit_all else "")


def attrs_from(case_list, omit_all=False):
    return Attrs([(e[0], e[1]) for e in case_list], omit_all)


# ---- pattern model --------------------------------------------------------------------------------
def apply_attrs(pattern, attrs, omit_all=False):
    """Pattern of the key obtained by (non-)delegable key generation/qualification with the list."""
    out = list(pattern)
    listed = dict(attrs)
    for i, s in enumerate(pattern):
        if i in listed:
            v = listed[i]
            if s == FREE:
                out[i] = HIDDEN if v is None else ("fixed", v % R)
            # fixed slots stay as they are (the list repeats them); hidden slots stay hidden
        elif s == FREE and omit_all:
            out[i] = HIDDEN
    return out


def fixed_of(pattern):
    return [(i, s[1]) for i, s in enumerate(pattern) if isinstance(s, tuple)]


def free_of(pattern):
    return [i for i, s in enumerate(pattern) if s == FREE]


class WK:
    """Bound to one loaded library instance."""

    def __init__(self, lib, guard=None):
        import os
        if guard is None:
            # sanitizer builds get exact-size arrays (ASan red zones are the guard); otherwise canary slots
            guard = 0 if os.environ.get("VERIF_SAN") == "1" else 16
        self.lib = lib
        d = lib.dll
        self.d = d
        d.vf_wk_set_guard(guard)
        self.guard = guard
        for n in ("vf_wk_params_new", "vf_wk_sk_new", "vf_alloc"):
            getattr(d, n).restype = VP
        for n in ("vf_wk_params_free", "vf_wk_sk_free", "vf_free", "vf_wk_setup", "vf_wk_keygen", "vf_wk_qualify", "vf_wk_adjust_nd", "vf_wk_precompute",
                  "vf_wk_adjust_pre", "vf_wk_resample", "vf_wk_encrypt", "vf_wk_decrypt", "vf_wk_sign", "vf_wk_marshal"):
            getattr(d, n).restype = None
        for n in ("vf_wk_get", "vf_wk_set", "vf_wk_verify", "vf_wk_sk_guard", "vf_wk_params_guard", "vf_wk_sizeof", "vf_wk_marshalled_length",
                  "vf_wk_unmarshal", "vf_wk_length_from", "vf_wk_length_formula"):
            getattr(d, n).restype = ctypes.c_long
        d.vf_alloc.argtypes = [ctypes.c_size_t]
        d.vf_free.argtypes = [VP]
        d.vf_wk_params_free.argtypes = [VP]
        d.vf_wk_sk_free.argtypes = [VP]
        self.g1sz, self.g2sz = lib.sizeof("G1"), lib.sizeof("G2")
        self.live = []

    # allocation (freed by close())
    def params_new(self, l):
        h = VP(self.d.vf_wk_params_new(l))
        self.live.append(("p", h))
        return h

    def sk_new(self, n):
        h = VP(self.d.vf_wk_sk_new(max(0, n)))
        self.live.append(("s", h))
        return h

    def blob(self, kind):
        h = VP(self.d.vf_alloc(self.d.vf_wk_sizeof(kind)))
        self.live.append(("b", h))
        return h

    def buf(self, n):
        h = VP(self.d.vf_alloc(n))
        self.live.append(("b", h))
        return h

    def close(self):
        for k, h in self.live:
            if k == "p":
                self.d.vf_wk_params_free(h)
            elif k == "s":
                self.d.vf_wk_sk_free(h)
            else:
                self.d.vf_free(h)
        self.live = []

    # operations
    def setup(self, l, signatures, stream, seed=0):
        self.lib.set_random(stream, seed)
        p, m = self.params_new(l), self.blob(1)
        self.d.vf_wk_setup(p, m, l, 1 if signatures else 0)
        return p, m

    def keygen(self, params, msk, attrs, nslots, nondelegable=False):
        sk = self.sk_new(nslots)
        self.d.vf_wk_keygen(sk, params, msk, *attrs.c_args(), 1 if nondelegable else 0)
        return sk

    def qualify(self, params, parent, attrs, nslots, nondelegable=False):
        sk = self.sk_new(nslots)
        self.d.vf_wk_qualify(sk, params, parent, *attrs.c_args(), 1 if nondelegable else 0)
        return sk

    def adjust_nd(self, sk, parent, frm, to):
        self.d.vf_wk_adjust_nd(sk, parent, *frm.c_args(), *to.c_args())

    def precompute(self, params, attrs):
        pre = self.blob(5)
        self.d.vf_wk_precompute(pre, params, *attrs.c_args())
        return pre

    def adjust_pre(self, pre, params, frm, to):
        self.d.vf_wk_adjust_pre(pre, params, *frm.c_args(), *to.c_args())

    def resample(self, params, pre, sk, further, nslots):
        out = self.sk_new(nslots)
        self.d.vf_wk_resample(out, params, pre, sk, 1 if further else 0)
        return out

    def encrypt(self, msg, params, attrs=None, pre=None):
        ct = self.blob(3)
        m = self.buf(576)
        ctypes.memmove(m, msg, 576)
        a = (attrs or Attrs([])).c_args()
        self.d.vf_wk_encrypt(ct, m, params, *a, pre)
        return ct

    def decrypt(self, ct, sk=None, msk=None, prefill=None):
        """prefill: what the caller's output object holds before the call (e.g. the plaintext of an earlier decryption)."""
        out = self.buf(576)
        if prefill is not None:
            ctypes.memmove(out, prefill, 576)
        self.d.vf_wk_decrypt(out, ct, sk, msk)
        return ctypes.string_at(out, 576)

    def gt_inv(self, a):
        return self._capi("gt_negate", 576, a)[1]

    def sign(self, params, sk, attrs, msg, pre=None, attrs_null=False):
        sig = self.blob(4)
        m = self.buf(32)
        ctypes.memmove(m, conv.bi(msg, 256), 32)
        a = (attrs or Attrs([])).c_args()
        self.d.vf_wk_sign(sig, params, sk, *a, 1 if attrs_null else 0, pre, m)
        return sig

    def verify(self, params, attrs, sig, msg, pre=None):
        m = self.buf(32)
        ctypes.memmove(m, conv.bi(msg, 256), 32)
        a = (attrs or Attrs([])).c_args()
        return self.d.vf_wk_verify(params, *a, pre, sig, m) != 0

    # field access
    def get(self, kind, obj, field, index=0, size=0):
        if size == 0:
            return self.d.vf_wk_get(kind, obj, field, index, None)
        tmp = ctypes.create_string_buffer(size + 32)
        n = self.d.vf_wk_get(kind, obj, field, index, tmp)
        return tmp.raw[:n]

    def params_view(self, p):
        l = self.get(0, p, 7)
        return {"g": self.get(0, p, 0, 0, self.g2sz), "g1": self.get(0, p, 1, 0, self.g2sz), "g2": self.get(0, p, 2, 0, self.g1sz),
                "g3": self.get(0, p, 3, 0, self.g1sz), "pairing": self.get(0, p, 4, 0, 576), "hsig": self.get(0, p, 5, 0, self.g1sz),
                "signatures": self.get(0, p, 6) != 0, "l": l, "h": [self.get(0, p, 8, i, self.g1sz) for i in range(l)]}

    def sk_view(self, sk, max_slots=64):
        l = self.get(2, sk, 2)
        n = max(0, min(l, max_slots))
        return {"a0": self.get(2, sk, 0, 0, self.g1sz), "a1": self.get(2, sk, 1, 0, self.g2sz), "l": l, "signatures": self.get(2, sk, 3) != 0,
                "bsig": self.get(2, sk, 4, 0, self.g1sz), "idx": [self.get(2, sk, 5, i) for i in range(n)],
                "b": [self.get(2, sk, 6, i, self.g1sz) for i in range(n)]}

    def sk_guard(self, sk):
        return self.d.vf_wk_sk_guard(sk)

    def blob_bytes(self, h, kind):
        return ctypes.string_at(h, self.d.vf_wk_sizeof(kind))

    # group helpers through the library (trusted lower layer, decided by C01/C05/C06)
    def _capi(self, name, out_size, *bufs, restype=None):
        lib = self.lib
        f = getattr(lib.dll, API + name)
        f.restype = restype
        blocks = [lib.A, lib.B, lib.C]
        args = []
        if out_size:
            lib.O.fill(0, out_size)
            args.append(lib.O.ptr)
        for i, b in enumerate(bufs):
            blocks[i].write(b)
            args.append(blocks[i].ptr)
        rv = f(*args)
        return rv, (lib.O.read(out_size) if out_size else b"")

    def g1_affine(self, proj):
        return self._capi("g1affine_from_projective", self.lib.sizeof("G1Affine"), proj)[1]

    def g2_affine(self, proj):
        return self._capi("g2affine_from_projective", self.lib.sizeof("G2Affine"), proj)[1]

    def pairing(self, g1proj, g2proj):
        return self._capi("pairing", 576, self.g1_affine(g1proj), self.g2_affine(g2proj))[1]

    def g1_mul(self, proj, k):
        return self._capi("g1_multiply", self.g1sz, proj, conv.bi(k % R, 256))[1]

    def g2_mul(self, proj, k):
        return self._capi("g2_multiply", self.g2sz, proj, conv.bi(k % R, 256))[1]

    def sampled_exponent(self, stream, seed):
        """The exponent the library's decomposed-exponent sampler (PowersOfX::random, decided by C07/C10) draws first from this
        stream. Leaves the random source re-armed with the same stream, so that the operation under test sees the same bytes."""
        lib = self.lib
        lib.set_random(stream, seed)
        lib.B.fill(0xCD, 32)
        lib.fn("vf_px_random", None)(lib.O.ptr, lib.B.ptr)
        y = conv.ib(lib.B.read(32))
        lib.set_random(stream, seed)
        return y

    def gt_pow(self, a, k):
        return self._capi("gt_multiply", 576, a, conv.bi(k % R, 256))[1]

    def ct_mismatch(self, ct, pv, entries, msg, s):
        """Name of the first ciphertext component that is not the one determined by (parameters, attribute list, message, exponent s):
        A = msg * e(g1,g2)^s, B = g^s, C = (g3 * prod h_i^{v_i})^s; None if all three are exact."""
        img = self.blob_bytes(ct, 3)
        a, b, c = img[:576], img[576:576 + self.g2sz], img[576 + self.g2sz:576 + self.g2sz + self.g1sz]
        if not self.g2_eq(b, self.g2_mul(pv["g"], s)):
            return "b"
        prod = self.attr_product(pv, [(e[0], e[1]) for e in entries if e[1] is not None])
        if not self.g1_eq(c, self.g1_mul(prod, s)):
            return "c"
        if a != self.gt_mul(msg, self.gt_pow(pv["pairing"], s)):
            return "a"
        return None

    def g1_add(self, a, b):
        return self._capi("g1_add", self.g1sz, a, b)[1]

    def g2_add(self, a, b):
        return self._capi("g2_add", self.g2sz, a, b)[1]

    def gt_mul(self, a, b):
        return self._capi("gt_add", 576, a, b)[1]

    def g1_eq(self, a, b):
        return bool(self._capi("g1_equal", 0, a, b, restype=ctypes.c_bool)[0])

    def g2_eq(self, a, b):
        return bool(self._capi("g2_equal", 0, a, b, restype=ctypes.c_bool)[0])

    def g1_is_zero(self, a):
        return conv.b_g1_proj(a) is None

    def attr_product(self, pv, fixed):
        """g3 * prod h_i^{v_i} over the fixed slots."""
        acc = pv["g3"]
        for i, v in fixed:
            acc = self.g1_add(acc, self.g1_mul(pv["h"][i], v))
        return acc
