"""Shared Hypothesis strategies. Every random choice is drawn through Hypothesis.

Strategies return (tag, value) pairs where tag names the construction; tags are the
classification labels reported in the evidence.
"""
from hypothesis import strategies as st

from .ref import fields as F

INT_TAGS = ("special", "pow2", "mpow2", "limbs", "toplike", "sparse", "dense", "uniform", "small", "runs")


def _limbs(draw, bits, limb=32):
    n = bits // limb
    v = 0
    kinds = draw(st.lists(st.integers(0, 5), min_size=n, max_size=n))
    for i, k in enumerate(kinds):
        if k == 0:
            w = 0
        elif k == 1:
            w = (1 << limb) - 1
        elif k == 2:
            w = 1
        elif k == 3:
            w = 1 << (limb - 1)
        elif k == 4:
            w = (1 << limb) - 2
        else:
            w = draw(st.integers(0, (1 << limb) - 1))
        v |= w << (limb * i)
    return v


@st.composite
def ints(draw, bits, m=None, tags=INT_TAGS):
    """Integers in [0, 2^bits) with boundary structure relative to the optional modulus m."""
    full = (1 << bits) - 1
    tag = draw(st.sampled_from(tags))
    mm = m if m is not None else (1 << (bits - 1)) + 12345
    if tag == "special":
        c = [0, 1, 2, 3, full, full - 1, full - 2, 1 << (bits - 1), (1 << (bits - 1)) - 1,
             mm - 1, mm - 2, mm, mm + 1, (mm - 1) // 2, (mm + 1) // 2, (mm - 1) // 2 + 1, 2 * mm, 2 * mm - 1, 2 * mm + 1,
             mm >> 1, full - mm, full - mm + 1]
        v = draw(st.sampled_from(c)) & full
    elif tag == "pow2":
        k = draw(st.sampled_from([32 * i for i in range(1, bits // 32 + 1)] + [bits - 1, bits - 2, bits - 3]))
        d = draw(st.integers(-40, 40))
        v = ((1 << k) + d) & full
    elif tag == "mpow2":
        k = draw(st.sampled_from([32 * i for i in range(0, bits // 32)]))
        d = draw(st.integers(-40, 40))
        j = draw(st.integers(1, 3))
        v = (j * mm - (1 << k) + d) & full if draw(st.booleans()) else (j * mm + d) & full
    elif tag == "limbs":
        v = _limbs(draw, bits, draw(st.sampled_from([32, 64])))
    elif tag == "toplike":
        word = draw(st.sampled_from([32, 64]))
        n = bits // word
        k = draw(st.integers(1, n))           # number of top words equal to the modulus'
        v = 0
        for i in range(n - 1, n - 1 - k, -1):
            v |= ((mm >> (word * i)) & ((1 << word) - 1)) << (word * i)
        if k < n:
            i = n - 1 - k
            mw = (mm >> (word * i)) & ((1 << word) - 1)
            how = draw(st.integers(0, 3))
            if how == 0:
                w = (mw + 1) & ((1 << word) - 1)
            elif how == 1:
                w = (mw - 1) & ((1 << word) - 1)
            elif how == 2:
                w = mw ^ (1 << draw(st.integers(0, word - 1)))
            else:
                w = draw(st.integers(0, (1 << word) - 1))
            v |= w << (word * i)
            if i > 0:
                v |= draw(st.integers(0, (1 << (word * i)) - 1))
    elif tag == "sparse":
        v = 0
        for b in draw(st.lists(st.integers(0, bits - 1), min_size=1, max_size=4)):
            v |= 1 << b
    elif tag == "dense":
        v = full
        for b in draw(st.lists(st.integers(0, bits - 1), min_size=0, max_size=4)):
            v &= ~(1 << b)
    elif tag == "small":
        v = draw(st.integers(0, 70))
    elif tag == "runs":
        # a few runs of consecutive one bits (long carry / borrow chains at arbitrary positions)
        v = 0
        for _ in range(draw(st.integers(1, 3))):
            ln = draw(st.integers(1, bits))
            pos = draw(st.integers(0, bits - 1))
            v ^= (((1 << ln) - 1) << pos) & full
    else:
        v = draw(st.integers(0, full))
    return tag, v


def below(v, m):
    """Map an arbitrary integer into [0, m) keeping boundary structure where possible."""
    if v < m:
        return v
    if v - m < m:
        return v - m
    return v % m


@st.composite
def canon(draw, bits, m):
    """Canonical operand in [0, m) as (tag, value)."""
    tag, v = draw(ints(bits, m))
    return tag, below(v, m)


@st.composite
def scalars(draw, bits=256):
    """Scalars for group operations: boundary structure relative to r, multiples of r, 2^bits - d."""
    r = F.R_ORDER
    full = (1 << bits) - 1
    tag = draw(st.sampled_from(("ints", "ints", "rmult", "top", "lambda", "xpow", "xdigits", "small", "uniform")))
    if tag == "ints":
        t2, v = draw(ints(bits, r if bits >= 255 else None))
        return "ints-" + t2, v
    if tag == "rmult":
        j = draw(st.integers(0, max(0, full // r)))
        d = draw(st.integers(-40, 40))
        return tag, (j * r + d) & full
    if tag == "top":
        return tag, full - draw(st.integers(0, 40))
    if tag == "lambda":
        lam = (X2 - 1) % r
        j = draw(st.integers(0, 1 << 20)) if draw(st.booleans()) else draw(st.integers(0, r - 1))
        d = draw(st.integers(-3, 3))
        return tag, ((j * lam + d) % r) & full
    if tag == "xpow":
        ax = -F.X
        i = draw(st.integers(1, 4))
        c = draw(st.integers(1, 4))
        d = draw(st.integers(-40, 40))
        return tag, (c * ax**i + d) & full
    if tag == "xdigits" and bits >= 256:
        # built from base-|x| digits at their boundaries (0, 1, |x|-1, |x|-2, and for the top digit also values >= |x|), optionally
        # lifted by r or 2r: the decomposition used by the G2 / GT fast paths subtracts r at most once and then divides by |x| three
        # times, so "digit exactly 0 / |x|-1" and "top digit beyond |x|" are its boundaries
        ax = -F.X
        dig = st.one_of(st.sampled_from((0, 0, 1, ax - 1, ax - 2, 2)), st.integers(0, ax - 1))
        c = [draw(dig) for _ in range(3)]
        c3 = draw(st.one_of(st.sampled_from((0, 1, ax - 1, ax, ax + 1)), st.integers(0, ax - 1), st.integers(ax, (1 << 64) - 1)))
        y = c[0] + c[1] * ax + c[2] * ax**2 + c3 * ax**3
        lift = draw(st.sampled_from((0, 1, 1, 2)))
        v = y + lift * r
        if v > full:
            v = y + r if y + r <= full else y
        return tag, v & full
    if tag == "small":
        return tag, draw(st.integers(0, 40)) & full
    return tag, draw(st.integers(0, full))


X2 = F.X * F.X


def hexs(v):
    return hex(v)
