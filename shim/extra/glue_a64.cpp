#define GW uint64_t
#define GDW unsigned __int128
#define GN 6
#define GP(n) embedded_pairing_core_arch_aarch64_##n
#include "glue_backend.inc"
