#define GW uint32_t
#define GDW uint64_t
#define GN 12
#define GP(n) embedded_pairing_core_arch_armv6_m_##n
#define GLUE_HAS_REDUCE 1
#include "glue_backend.inc"
