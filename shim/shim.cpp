// Verification shim: flat C ABI over the C++ layers of the working tree.
// Nothing here implements arithmetic; it only forwards to the library.
#include "shim.hpp"
#include <vector>

using embedded_pairing::core::exponentiate;
using embedded_pairing::core::fp_inverse;

// ---------------------------------------------------------------------------------------
// deterministic random source and recording hash callback (thread-local)
// ---------------------------------------------------------------------------------------
struct VfRand {
    uint8_t* data;
    size_t len;
    size_t pos;
    uint64_t requested;
    uint64_t calls;
    uint64_t state;
};
static thread_local VfRand vf_rand = {nullptr, 0, 0, 0, 0, 0x9e3779b97f4a7c15ULL};
thread_local int vf_use_cpp = 0;

static inline uint64_t splitmix(uint64_t& s) {
    uint64_t z = (s += 0x9e3779b97f4a7c15ULL);
    z = (z ^ (z >> 30)) * 0xbf58476d1ce4e5b9ULL;
    z = (z ^ (z >> 27)) * 0x94d049bb133111ebULL;
    return z ^ (z >> 31);
}

VF_EXPORT void vf_rand_set(const uint8_t* data, size_t len, uint64_t seed) {
    free(vf_rand.data);
    vf_rand.data = nullptr;
    if (len != 0) {
        vf_rand.data = (uint8_t*) malloc(len);
        memcpy(vf_rand.data, data, len);
    }
    vf_rand.len = len;
    vf_rand.pos = 0;
    vf_rand.requested = 0;
    vf_rand.calls = 0;
    uint64_t s = seed ^ 0x6a09e667f3bcc908ULL;
    for (size_t i = 0; i != len; i++) {
        s = (s ^ data[i]) * 0x100000001b3ULL;
    }
    vf_rand.state = s;
}

VF_EXPORT void vf_rand_bytes(void* out, size_t n) {
    uint8_t* o = (uint8_t*) out;
    vf_rand.requested += n;
    vf_rand.calls++;
    for (size_t i = 0; i != n; i++) {
        if (vf_rand.pos < vf_rand.len) {
            o[i] = vf_rand.data[vf_rand.pos++];
        } else {
            o[i] = (uint8_t) (splitmix(vf_rand.state) >> 24);
        }
    }
}

VF_EXPORT uint64_t vf_rand_requested(void) { return vf_rand.requested; }
VF_EXPORT uint64_t vf_rand_calls(void) { return vf_rand.calls; }
VF_EXPORT void* vf_rand_fn(void) { return (void*) &vf_rand_bytes; }

struct VfHash {
    uint8_t in[2048];
    size_t inlen;
    size_t outlen;
    uint64_t calls;
};
static thread_local VfHash vf_hash = {{0}, 0, 0, 0};

VF_EXPORT void vf_hash_fill(void* out, size_t outlen, const void* in, size_t inlen) {
    vf_hash.calls++;
    vf_hash.inlen = inlen;
    vf_hash.outlen = outlen;
    memcpy(vf_hash.in, in, inlen < sizeof(vf_hash.in) ? inlen : sizeof(vf_hash.in));
    uint64_t s = 0xcbf29ce484222325ULL;
    const uint8_t* p = (const uint8_t*) in;
    for (size_t i = 0; i != inlen; i++) {
        s = (s ^ p[i]) * 0x100000001b3ULL;
    }
    uint8_t* o = (uint8_t*) out;
    for (size_t i = 0; i != outlen; i++) {
        o[i] = (uint8_t) (splitmix(s) >> 16);
    }
}
VF_EXPORT size_t vf_hash_last(uint8_t* buf, size_t cap) {
    size_t n = vf_hash.inlen < cap ? vf_hash.inlen : cap;
    memcpy(buf, vf_hash.in, n);
    return vf_hash.inlen;
}
VF_EXPORT uint64_t vf_hash_calls(void) { return vf_hash.calls; }
VF_EXPORT void* vf_hash_fn(void) { return (void*) &vf_hash_fill; }
VF_EXPORT void vf_set_use_cpp(int v) { vf_use_cpp = v; }

// ---------------------------------------------------------------------------------------
// configuration introspection and back-end selection
// ---------------------------------------------------------------------------------------
VF_EXPORT int vf_word_bits(void) { return (int) (sizeof(BigInt<384>::word_t) * 8); }

#if !defined(DISABLE_ASM) && (defined(__x86_64__) || defined(_M_X64_))
extern "C" {
    bool embedded_pairing_core_arch_x86_64_cpu_supports_bmi2_adx(void);
    void embedded_pairing_core_arch_x86_64_fpbase_384_montgomery_reduce(void* res, void* a, const void* p, uint64_t inv_word);
    void embedded_pairing_core_arch_x86_64_bigint_768_multiply(void* res, const void* a, const void* b);
    void embedded_pairing_core_arch_x86_64_bigint_768_square(void* res, const void* a);
}
// which: 0 = BMI2/ADX routines, 1 = baseline routines, -1 = query only.
// Returns 0/1 for the routines now installed (2 = mixed / unknown), -1 if not applicable.
VF_EXPORT int vf_backend(int which) {
#ifdef __BMI2__
    return -1;
#else
    using namespace embedded_pairing::core;
    if (which == 0) {
        runtime_fpbase_384_montgomery_reduce = embedded_pairing_core_arch_x86_64_bmi2_adx_fpbase_384_montgomery_reduce;
        runtime_bigint_768_multiply = embedded_pairing_core_arch_x86_64_bmi2_adx_bigint_768_multiply;
        runtime_bigint_768_square = embedded_pairing_core_arch_x86_64_bmi2_adx_bigint_768_square;
    } else if (which == 1) {
        runtime_fpbase_384_montgomery_reduce = embedded_pairing_core_arch_x86_64_fpbase_384_montgomery_reduce;
        runtime_bigint_768_multiply = embedded_pairing_core_arch_x86_64_bigint_768_multiply;
        runtime_bigint_768_square = embedded_pairing_core_arch_x86_64_bigint_768_square;
    }
    bool b0 = runtime_fpbase_384_montgomery_reduce == embedded_pairing_core_arch_x86_64_bmi2_adx_fpbase_384_montgomery_reduce;
    bool b1 = runtime_bigint_768_multiply == embedded_pairing_core_arch_x86_64_bmi2_adx_bigint_768_multiply;
    bool b2 = runtime_bigint_768_square == embedded_pairing_core_arch_x86_64_bmi2_adx_bigint_768_square;
    bool n0 = runtime_fpbase_384_montgomery_reduce == embedded_pairing_core_arch_x86_64_fpbase_384_montgomery_reduce;
    bool n1 = runtime_bigint_768_multiply == embedded_pairing_core_arch_x86_64_bigint_768_multiply;
    bool n2 = runtime_bigint_768_square == embedded_pairing_core_arch_x86_64_bigint_768_square;
    if (b0 && b1 && b2) return 0;
    if (n0 && n1 && n2) return 1;
    return 2;
#endif
}
VF_EXPORT int vf_cpu_bmi2(void) { return embedded_pairing_core_arch_x86_64_cpu_supports_bmi2_adx() ? 1 : 0; }
// Arithmetic flags are not part of the calling convention: whatever an earlier routine left in CF / OF must not leak into the
// next one. vf_tramp_flags(a0..a4, fn) enters fn(a0..a4) with CF = OF = SF = 1 (a tail jump, so fn returns to the caller).
asm(".text\n"
    ".globl vf_tramp_flags\n"
    ".type vf_tramp_flags, @function\n"
    "vf_tramp_flags:\n"
    "    mov %r9, %r11\n"
    "    mov $0x7f, %al\n"
    "    add $1, %al\n"        /* OF = SF = 1 */
    "    stc\n"                /* CF = 1 */
    "    jmp *%r11\n"
    ".size vf_tramp_flags, .-vf_tramp_flags\n");
#else
VF_EXPORT int vf_backend(int) { return -1; }
VF_EXPORT int vf_cpu_bmi2(void) { return -1; }
#endif

struct VfTypeInfo { const char* name; size_t size; size_t align; };
static const VfTypeInfo vf_types[] = {
#define T(x) {#x, sizeof(x), alignof(x)}
    T(BigInt<64>), T(BigInt<128>), T(BigInt<192>), T(BigInt<256>), T(BigInt<384>), T(BigInt<512>), T(BigInt<768>),
    T(Fq), T(Fr), T(Fq2), T(Fq6), T(Fq12), T(G1), T(G2), T(G1Affine), T(G2Affine), T(PowersOfX), T(G2Prepared),
    T(MillerTriple),
#undef T
    {nullptr, 0, 0}
};
VF_EXPORT long vf_sizeof(const char* name) {
    for (const VfTypeInfo* t = vf_types; t->name != nullptr; t++) {
        if (strcmp(t->name, name) == 0) return (long) t->size;
    }
    return -1;
}
VF_EXPORT long vf_offsetof_infinity(int g2) {
    return g2 ? (long) offsetof(G2Affine, infinity) : (long) offsetof(G1Affine, infinity);
}

// ---------------------------------------------------------------------------------------
// table-generated operations
// ---------------------------------------------------------------------------------------
#define VF_SIG(name) VF_EXPORT long vf_##name(void* o, const void* a, const void* b, unsigned long arg)
#define U(name, layer, T, method, A)   VF_SIG(name) { (void) b; (void) arg; ((T*) o)->method(*(const A*) a); return 0; }
#define UR(name, layer, T, method, A)  U(name, layer, T, method, A)
#define RU(name, layer, T, method, A)  VF_SIG(name) { (void) b; (void) arg; return (long) ((T*) o)->method(*(const A*) a); }
#define UI(name, layer, T, method, A)  VF_SIG(name) { (void) b; ((T*) o)->method(*(const A*) a, (unsigned int) arg); return 0; }
#define RUI(name, layer, T, method, A) VF_SIG(name) { (void) b; return (long) ((T*) o)->method(*(const A*) a, (unsigned int) arg); }
#define B(name, layer, T, method, A, Bt)   VF_SIG(name) { (void) arg; ((T*) o)->method(*(const A*) a, *(const Bt*) b); return 0; }
#define BR(name, layer, T, method, A, Bt)  B(name, layer, T, method, A, Bt)
#define BRR(name, layer, T, method, A, Bt) B(name, layer, T, method, A, Bt)
#define RB(name, layer, T, method, A, Bt)  VF_SIG(name) { (void) arg; return (long) ((T*) o)->method(*(const A*) a, *(const Bt*) b); }
#define RBR(name, layer, T, method, A, Bt) RB(name, layer, T, method, A, Bt)
#include "ops.def"
#undef U
#undef UR
#undef RU
#undef UI
#undef RUI
#undef B
#undef BR
#undef BRR
#undef RB
#undef RBR

// ---------------------------------------------------------------------------------------
// irregular signatures: multi-precision / prime fields
// ---------------------------------------------------------------------------------------
VF_EXPORT long vf_bi_compare(int bits, const void* a, const void* b) {
    switch (bits) {
    case 64: return BigInt<64>::compare(*(const BigInt<64>*) a, *(const BigInt<64>*) b);
    case 128: return BigInt<128>::compare(*(const BigInt<128>*) a, *(const BigInt<128>*) b);
    case 256: return BigInt<256>::compare(*(const BigInt<256>*) a, *(const BigInt<256>*) b);
    case 384: return BigInt<384>::compare(*(const BigInt<384>*) a, *(const BigInt<384>*) b);
    case 512: return BigInt<512>::compare(*(const BigInt<512>*) a, *(const BigInt<512>*) b);
    }
    return -99;
}
VF_EXPORT long vf_bi_equal(int bits, const void* a, const void* b) {
    switch (bits) {
    case 64: return BigInt<64>::equal(*(const BigInt<64>*) a, *(const BigInt<64>*) b);
    case 128: return BigInt<128>::equal(*(const BigInt<128>*) a, *(const BigInt<128>*) b);
    case 256: return BigInt<256>::equal(*(const BigInt<256>*) a, *(const BigInt<256>*) b);
    case 384: return BigInt<384>::equal(*(const BigInt<384>*) a, *(const BigInt<384>*) b);
    case 512: return BigInt<512>::equal(*(const BigInt<512>*) a, *(const BigInt<512>*) b);
    }
    return -99;
}
// flags: bit0 is_zero, bit1 is_one, bit2 is_even, bit3 is_odd
VF_EXPORT long vf_bi_flags(int bits, const void* a) {
#define FL(N) { const BigInt<N>* x = (const BigInt<N>*) a; return (x->is_zero() ? 1 : 0) | (x->is_one() ? 2 : 0) | (x->is_even() ? 4 : 0) | (x->is_odd() ? 8 : 0); }
    switch (bits) {
    case 64: FL(64)
    case 128: FL(128)
    case 256: FL(256)
    case 384: FL(384)
    case 512: FL(512)
    }
#undef FL
    return -99;
}
VF_EXPORT long vf_bi_bit(int bits, const void* a, int pos) {
    switch (bits) {
    case 64: return ((const BigInt<64>*) a)->bit(pos);
    case 256: return ((const BigInt<256>*) a)->bit(pos);
    case 384: return ((const BigInt<384>*) a)->bit(pos);
    }
    return -99;
}
VF_EXPORT long vf_bi_divide_x(void* quot, const void* a) {
    constexpr uint64_t x = (((uint64_t) bls_x.std_words[1]) << 32) | (uint64_t) (bls_x.std_words[0]);
    return (long) ((BigInt<256>*) quot)->divide_std_dword<x>(*(const BigInt<256>*) a);
}
VF_EXPORT void vf_bi_be(int bits, int dir, void* dst, const void* src) {
#define BE(N) if (dir == 0) ((const BigInt<N>*) src)->write_big_endian((uint8_t*) dst); else ((BigInt<N>*) dst)->read_big_endian((const uint8_t*) src); return;
    switch (bits) {
    case 64: BE(64)
    case 256: BE(256)
    case 384: BE(384)
    }
#undef BE
}

// FpBase<384> with caller-supplied modulus (the routines the back ends specialise)
VF_EXPORT void vf_fpb384_add(void* o, const void* a, const void* b, const void* p) {
    ((FpBase<384>*) o)->add(*(const FpBase<384>*) a, *(const FpBase<384>*) b, *(const BigInt<384>*) p);
}
VF_EXPORT void vf_fpb384_sub(void* o, const void* a, const void* b, const void* p) {
    ((FpBase<384>*) o)->subtract(*(const FpBase<384>*) a, *(const FpBase<384>*) b, *(const BigInt<384>*) p);
}
VF_EXPORT void vf_fpb384_dbl(void* o, const void* a, const void* p) {
    ((FpBase<384>*) o)->multiply2(*(const FpBase<384>*) a, *(const BigInt<384>*) p);
}
VF_EXPORT void vf_fpb384_neg(void* o, const void* a, const void* p) {
    ((FpBase<384>*) o)->negate(*(const FpBase<384>*) a, *(const BigInt<384>*) p);
}
VF_EXPORT void vf_fpb384_mred(void* o, void* t768, const void* p, uint64_t inv) {
    ((FpBase<384>*) o)->montgomery_reduce(*(BigInt<768>*) t768, *(const BigInt<384>*) p, (BigInt<384>::word_t) inv);
}
VF_EXPORT void vf_fpb384_mul(void* o, const void* a, const void* b, const void* p, uint64_t inv) {
    ((FpBase<384>*) o)->multiply(*(const FpBase<384>*) a, *(const FpBase<384>*) b, *(const BigInt<384>*) p, (BigInt<384>::word_t) inv);
}
VF_EXPORT void vf_fpb384_sqr(void* o, const void* a, const void* p, uint64_t inv) {
    ((FpBase<384>*) o)->square(*(const FpBase<384>*) a, *(const BigInt<384>*) p, (BigInt<384>::word_t) inv);
}
// same for 256 bits (generic code in every configuration; Fr)
VF_EXPORT void vf_fpb256_add(void* o, const void* a, const void* b, const void* p) {
    ((FpBase<256>*) o)->add(*(const FpBase<256>*) a, *(const FpBase<256>*) b, *(const BigInt<256>*) p);
}
VF_EXPORT void vf_fpb256_sub(void* o, const void* a, const void* b, const void* p) {
    ((FpBase<256>*) o)->subtract(*(const FpBase<256>*) a, *(const FpBase<256>*) b, *(const BigInt<256>*) p);
}
VF_EXPORT void vf_fpb256_dbl(void* o, const void* a, const void* p) {
    ((FpBase<256>*) o)->multiply2(*(const FpBase<256>*) a, *(const BigInt<256>*) p);
}
VF_EXPORT void vf_fpb256_mred(void* o, void* t512, const void* p, uint64_t inv) {
    ((FpBase<256>*) o)->montgomery_reduce(*(BigInt<512>*) t512, *(const BigInt<256>*) p, (BigInt<256>::word_t) inv);
}

template <typename F, int bits>
static long field_misc(int what, void* o, const void* a, const void* b) {
    F* out = (F*) o;
    const F* x = (const F*) a;
    const F* y = (const F*) b;
    switch (what) {
    case 0: x->get(*(BigInt<bits>*) o); return 0;
    case 1: return x->legendre();
    case 2: return BigInt<bits>::compare(x->val, y->val);
    case 3: return F::equal(*x, *y) ? 1 : 0;
    case 4: return x->is_zero() ? 1 : 0;
    case 5: return x->is_one() ? 1 : 0;
    case 6: return out->hash_reduce() ? 1 : 0;           /* in place */
    case 7: out->random(vf_rand_bytes); return 0;
    case 8: out->into_montgomery_form(); return 0;       /* in place */
    case 9: out->montgomery_reduce(*(BigInt<2 * bits>*) const_cast<void*>(a)); return 0; /* a is clobbered */
    case 10: fp_inverse(*out, *x); return 0;
    case 11: out->set_zero(); return 0;
    case 12: out->copy(*x); return 0;
    }
    return -99;
}
VF_EXPORT long vf_fq_misc(int what, void* o, const void* a, const void* b) { return field_misc<Fq, 384>(what, o, a, b); }
VF_EXPORT long vf_fr_misc(int what, void* o, const void* a, const void* b) { return field_misc<Fr, 256>(what, o, a, b); }
VF_EXPORT long vf_fq_compare(const void* a, const void* b) { return Fq::compare(*(const Fq*) a, *(const Fq*) b); }
VF_EXPORT void vf_fq_write_be(void* buf, const void* a) { ((const Fq*) a)->write_big_endian((uint8_t*) buf); }
VF_EXPORT void vf_fq_read_be(void* o, const void* buf) { ((Fq*) o)->read_big_endian((const uint8_t*) buf); }

template <typename F>
static long field_exp(int bits, void* o, const void* a, const void* p) {
    switch (bits) {
    case 64: exponentiate(*(F*) o, *(const F*) a, *(const BigInt<64>*) p); return 0;
    case 128: exponentiate(*(F*) o, *(const F*) a, *(const BigInt<128>*) p); return 0;
    case 256: exponentiate(*(F*) o, *(const F*) a, *(const BigInt<256>*) p); return 0;
    case 384: exponentiate(*(F*) o, *(const F*) a, *(const BigInt<384>*) p); return 0;
    case 512: exponentiate(*(F*) o, *(const F*) a, *(const BigInt<512>*) p); return 0;
    }
    return -99;
}
VF_EXPORT long vf_fq_exp(int bits, void* o, const void* a, const void* p) { return field_exp<Fq>(bits, o, a, p); }
VF_EXPORT long vf_fr_exp(int bits, void* o, const void* a, const void* p) { return field_exp<Fr>(bits, o, a, p); }
VF_EXPORT long vf_fq2_exp(int bits, void* o, const void* a, const void* p) { return field_exp<Fq2>(bits, o, a, p); }
VF_EXPORT long vf_fq6_exp(int bits, void* o, const void* a, const void* p) { return field_exp<Fq6>(bits, o, a, p); }
VF_EXPORT long vf_fq12_exp(int bits, void* o, const void* a, const void* p) { return field_exp<Fq12>(bits, o, a, p); }

// library constants as raw images
VF_EXPORT long vf_const(const char* name, void* out, size_t cap) {
#define C(n, expr) if (strcmp(name, n) == 0) { if (cap < sizeof(expr)) return -2; memcpy(out, &(expr), sizeof(expr)); return (long) sizeof(expr); }
    C("fq_modulus", Fq::p_value) C("fq_R", Fq::r_value) C("fq_R2", Fq::r2_value) C("fq_inv", Fq::inv_value)
    C("fr_modulus", Fr::p_value) C("fr_R", Fr::r_value) C("fr_R2", Fr::r2_value) C("fr_inv", Fr::inv_value)
    C("fq_one", Fq::one) C("fq_zero", Fq::zero) C("fq_negative_one", Fq::negative_one)
    C("fr_one", Fr::one) C("fr_zero", Fr::zero)
    C("fq2_one", Fq2::one) C("fq2_zero", Fq2::zero) C("fq2_negative_one", Fq2::negative_one)
    C("fq6_one", Fq6::one) C("fq6_zero", Fq6::zero) C("fq12_one", Fq12::one) C("fq12_zero", Fq12::zero)
    C("g1_b", g1_b_coeff_var) C("g2_b", g2_b_coeff_var)
    C("g1a_generator", G1Affine::generator) C("g2a_generator", G2Affine::generator)
    C("g1a_zero", G1Affine::zero) C("g2a_zero", G2Affine::zero) C("g1_zero", G1::zero) C("g2_zero", G2::zero)
    C("g1_one", G1::one) C("g2_one", G2::one)
    C("g1_cofactor", G1Affine::cofactor) C("g2_cofactor", G2Affine::cofactor)
    C("generator_pairing", generator_pairing) C("bls_x", bls_x)
    C("wkdibe_group_order", embedded_pairing::wkdibe::group_order) C("lqibe_group_order", embedded_pairing::lqibe::group_order)
#undef C
    if (strcmp(name, "num_coeffs") == 0) { long v = G2Prepared::num_coeffs; memcpy(out, &v, sizeof(v)); return sizeof(v); }
    if (strcmp(name, "bls_x_is_negative") == 0) { long v = bls_x_is_negative; memcpy(out, &v, sizeof(v)); return sizeof(v); }
    return -1;
}

// ---------------------------------------------------------------------------------------
// tower: irregular signatures
// ---------------------------------------------------------------------------------------
VF_EXPORT void vf_fq2_norm(void* o, const void* a) { ((const Fq2*) a)->norm(*(Fq*) o); }
VF_EXPORT long vf_fq2_legendre(const void* a) { return ((const Fq2*) a)->legendre(); }
VF_EXPORT long vf_fq2_compare(const void* a, const void* b) { return Fq2::compare(*(const Fq2*) a, *(const Fq2*) b); }
VF_EXPORT long vf_tower_equal(int deg, const void* a, const void* b) {
    switch (deg) {
    case 2: return Fq2::equal(*(const Fq2*) a, *(const Fq2*) b);
    case 6: return Fq6::equal(*(const Fq6*) a, *(const Fq6*) b);
    case 12: return Fq12::equal(*(const Fq12*) a, *(const Fq12*) b);
    }
    return -99;
}
VF_EXPORT long vf_tower_is_zero(int deg, const void* a) {
    switch (deg) {
    case 2: return ((const Fq2*) a)->is_zero();
    case 6: return ((const Fq6*) a)->is_zero();
    case 12: return ((const Fq12*) a)->is_zero();
    }
    return -99;
}
VF_EXPORT void vf_tower_be(int deg, int dir, void* dst, const void* src) {
#define BE(T) if (dir == 0) ((const T*) src)->write_big_endian((uint8_t*) dst); else ((T*) dst)->read_big_endian((const uint8_t*) src); return;
    switch (deg) {
    case 1: BE(Fq)
    case 2: BE(Fq2)
    case 6: BE(Fq6)
    case 12: BE(Fq12)
    }
#undef BE
}
VF_EXPORT void vf_tower_random(int deg, void* o) {
    switch (deg) {
    case 1: ((Fq*) o)->random(vf_rand_bytes); return;
    case 2: ((Fq2*) o)->random(vf_rand_bytes); return;
    case 6: ((Fq6*) o)->random(vf_rand_bytes); return;
    case 12: ((Fq12*) o)->random(vf_rand_bytes); return;
    }
}
VF_EXPORT long vf_fq2_hash_reduce(void* io) { return ((Fq2*) io)->hash_reduce() ? 1 : 0; }
VF_EXPORT void vf_fq6_mul_c01(void* o, const void* a, const void* c0, const void* c1) {
    ((Fq6*) o)->multiply_by_c01(*(const Fq6*) a, *(const Fq2*) c0, *(const Fq2*) c1);
}
VF_EXPORT void vf_fq12_mul_c014(void* o, const void* a, const void* c0, const void* c1, const void* c4) {
    ((Fq12*) o)->multiply_by_c014(*(const Fq12*) a, *(const Fq2*) c0, *(const Fq2*) c1, *(const Fq2*) c4);
}
VF_EXPORT void vf_fq12_exp_cyc_nodiv(int bits, void* o, const void* a, const void* p) {
    switch (bits) {
    case 64: ((Fq12*) o)->exponentiate_restrict_cyclotomic_nodiv(*(const Fq12*) a, *(const BigInt<64>*) p); return;
    case 256: ((Fq12*) o)->exponentiate_restrict_cyclotomic_nodiv(*(const Fq12*) a, *(const BigInt<256>*) p); return;
    case 384: ((Fq12*) o)->exponentiate_restrict_cyclotomic_nodiv(*(const Fq12*) a, *(const BigInt<384>*) p); return;
    }
}

// ---------------------------------------------------------------------------------------
// decomposition and target group
// ---------------------------------------------------------------------------------------
VF_EXPORT void vf_px_decompose(void* px, const void* y) { ((PowersOfX*) px)->decompose(*(const BigInt<256>*) y); }
VF_EXPORT void vf_px_random(void* px, void* y) { ((PowersOfX*) px)->random(*(BigInt<256>*) y, vf_rand_bytes); }
VF_EXPORT void vf_fq12_random_gt(void* o, void* y, const void* base) { ((Fq12*) o)->random_gt(*(BigInt<256>*) y, *(const Fq12*) base, vf_rand_bytes); }

// ---------------------------------------------------------------------------------------
// curves: irregular signatures
// ---------------------------------------------------------------------------------------
VF_EXPORT long vf_g_equal(int g, int affine, const void* a, const void* b) {
    if (g == 1) {
        return affine ? G1Affine::equal(*(const G1Affine*) a, *(const G1Affine*) b) : G1::equal(*(const G1*) a, *(const G1*) b);
    }
    return affine ? G2Affine::equal(*(const G2Affine*) a, *(const G2Affine*) b) : G2::equal(*(const G2*) a, *(const G2*) b);
}
// what: 0 is_zero, 1 is_on_curve (affine), 2 in_subgroup (affine), 3 is_normalized (projective)
VF_EXPORT long vf_g_pred(int g, int affine, int what, const void* a) {
    if (g == 1) {
        if (affine) {
            const G1Affine* p = (const G1Affine*) a;
            return what == 0 ? p->is_zero() : what == 1 ? p->is_on_curve() : what == 2 ? p->is_in_correct_subgroup_assuming_on_curve() : -99;
        }
        const G1* p = (const G1*) a;
        return what == 0 ? p->is_zero() : what == 3 ? p->is_normalized() : -99;
    }
    if (affine) {
        const G2Affine* p = (const G2Affine*) a;
        return what == 0 ? p->is_zero() : what == 1 ? p->is_on_curve() : what == 2 ? p->is_in_correct_subgroup_assuming_on_curve() : -99;
    }
    const G2* p = (const G2*) a;
    return what == 0 ? p->is_zero() : what == 3 ? p->is_normalized() : -99;
}
VF_EXPORT long vf_g_point_from_x(int g, void* o, const void* x, int greater, int checked) {
    if (g == 1) return ((G1Affine*) o)->get_point_from_x(*(const Fq*) x, greater != 0, checked != 0);
    return ((G2Affine*) o)->get_point_from_x(*(const Fq2*) x, greater != 0, checked != 0);
}
VF_EXPORT void vf_g_random_generator(int g, void* o) {
    if (g == 1) ((G1*) o)->random_generator(vf_rand_bytes); else ((G2*) o)->random_generator(vf_rand_bytes);
}
VF_EXPORT void vf_g1_mul_endo_parts(void* o, const void* base, const void* c0, int c0neg, const void* c1, int c1neg) {
    ((G1*) o)->multiply_endomorphism(*(const G1*) base, *(const BigInt<256>*) c0, c0neg != 0, *(const BigInt<256>*) c1, c1neg != 0);
}
VF_EXPORT void vf_g1_mul_128(void* o, const void* base, int affine, const void* k) {
    if (affine) ((G1*) o)->multiply(*(const G1Affine*) base, *(const BigInt<128>*) k);
    else ((G1*) o)->multiply(*(const G1*) base, *(const BigInt<128>*) k);
}
VF_EXPORT void vf_g2_mul_512(void* o, const void* base, int affine, const void* k) {
    if (affine) ((G2*) o)->multiply(*(const G2Affine*) base, *(const BigInt<512>*) k);
    else ((G2*) o)->multiply(*(const G2*) base, *(const BigInt<512>*) k);
}

// wNAF: recoding and the three multiply entry points, for the instantiated windows and a few more
template <int bits, unsigned int window>
static long wnaf_recode(int8_t* digits, const void* k) {
    WnafScalar<bits, window> s;
    memset(&s, 0x55, sizeof(s));
    s.from_bigint(*(const BigInt<bits>*) k);
    memcpy(digits, s.wnaf, sizeof(s.wnaf));
    return s.wnaf_size;
}
#define WN_DISPATCH(FN, ...) \
    switch (bits * 16 + (int) window) { \
    case 64 * 16 + 2: return FN<64, 2>(__VA_ARGS__); case 64 * 16 + 3: return FN<64, 3>(__VA_ARGS__); case 64 * 16 + 4: return FN<64, 4>(__VA_ARGS__); \
    case 128 * 16 + 2: return FN<128, 2>(__VA_ARGS__); case 128 * 16 + 3: return FN<128, 3>(__VA_ARGS__); case 128 * 16 + 4: return FN<128, 4>(__VA_ARGS__); case 128 * 16 + 5: return FN<128, 5>(__VA_ARGS__); \
    case 256 * 16 + 2: return FN<256, 2>(__VA_ARGS__); case 256 * 16 + 3: return FN<256, 3>(__VA_ARGS__); case 256 * 16 + 4: return FN<256, 4>(__VA_ARGS__); case 256 * 16 + 5: return FN<256, 5>(__VA_ARGS__); case 256 * 16 + 6: return FN<256, 6>(__VA_ARGS__); \
    case 512 * 16 + 2: return FN<512, 2>(__VA_ARGS__); case 512 * 16 + 4: return FN<512, 4>(__VA_ARGS__); \
    } return -99;
VF_EXPORT long vf_wnaf_recode(int bits, unsigned int window, int8_t* digits, const void* k) {
    WN_DISPATCH(wnaf_recode, digits, k)
}
// mode 0: multiply_wnaf(base, BigInt); 1: pre-recoded scalar; 2: pre-filled table + BigInt
template <typename P, typename A, int bits, unsigned int window>
static long wnaf_mul_t(P* o, const void* base, int affine, const void* k, int mode) {
    const BigInt<bits>& scalar = *(const BigInt<bits>*) k;
    if (mode == 0) {
        if (affine) o->template multiply_wnaf<A, BigInt<bits>, window>(*(const A*) base, scalar);
        else o->template multiply_wnaf<P, BigInt<bits>, window>(*(const P*) base, scalar);
    } else if (mode == 1) {
        WnafScalar<bits, window> s;
        s.from_bigint(scalar);
        if (affine) o->multiply_wnaf(*(const A*) base, s);
        else o->multiply_wnaf(*(const P*) base, s);
    } else {
        WnafTable<P, window> t;
        if (affine) t.fill_table(*(const A*) base); else t.fill_table(*(const P*) base);
        wnaf_multiply<P, P, bits, window>(*o, t, scalar);
    }
    return 0;
}
template <int bits, unsigned int window>
static long wnaf_mul_g1(void* o, const void* base, int affine, const void* k, int mode) { return wnaf_mul_t<Projective<Fq>, G1Affine, bits, window>((Projective<Fq>*) o, base, affine, k, mode); }
template <int bits, unsigned int window>
static long wnaf_mul_g2(void* o, const void* base, int affine, const void* k, int mode) { return wnaf_mul_t<Projective<Fq2>, G2Affine, bits, window>((Projective<Fq2>*) o, base, affine, k, mode); }
VF_EXPORT long vf_wnaf_mul(int g, int bits, unsigned int window, void* o, const void* base, int affine, const void* k, int mode) {
    if (g == 1) { WN_DISPATCH(wnaf_mul_g1, o, base, affine, k, mode) }
    WN_DISPATCH(wnaf_mul_g2, o, base, affine, k, mode)
}
VF_EXPORT long vf_doubleadd(int g, int bits, void* o, const void* base, int affine, const void* k) {
#define DA(P, A, N) if (affine) ((P*) o)->multiply_doubleadd(*(const A*) base, *(const BigInt<N>*) k); else ((P*) o)->multiply_doubleadd(*(const P*) base, *(const BigInt<N>*) k); return 0;
    if (g == 1) {
        switch (bits) { case 64: DA(G1, G1Affine, 64) case 128: DA(G1, G1Affine, 128) case 256: DA(G1, G1Affine, 256) case 512: DA(G1, G1Affine, 512) }
    } else {
        switch (bits) { case 64: DA(G2, G2Affine, 64) case 128: DA(G2, G2Affine, 128) case 256: DA(G2, G2Affine, 256) case 512: DA(G2, G2Affine, 512) }
    }
#undef DA
    return -99;
}

// ---------------------------------------------------------------------------------------
// pairing
// ---------------------------------------------------------------------------------------
VF_EXPORT void vf_miller_loop(void* o, const void* g1a, const void* g2, int prepared) {
    if (prepared) miller_loop(*(Fq12*) o, *(const G1Affine*) g1a, *(const G2Prepared*) g2);
    else miller_loop(*(Fq12*) o, *(const G1Affine*) g1a, *(const G2Affine*) g2);
}
VF_EXPORT void vf_final_exp(void* o, const void* a) { final_exponentiation(*(Fq12*) o, *(const Fq12*) a); }
VF_EXPORT void vf_pairing_cpp(void* o, const void* g1a, const void* g2, int prepared) {
    if (prepared) pairing(*(Fq12*) o, *(const G1Affine*) g1a, *(const G2Prepared*) g2);
    else pairing(*(Fq12*) o, *(const G1Affine*) g1a, *(const G2Affine*) g2);
}
VF_EXPORT void vf_g2_prepare(void* o, const void* g2a) { ((G2Prepared*) o)->prepare(*(const G2Affine*) g2a); }

// Builds the C pair arrays (exact-size heap blocks) and calls the product.
// g1s: na+np consecutive G1Affine images (affine pairs first); g2s: na G2Affine images;
// preps: np G2Prepared images. dirty: fill the private per-pair state with junk first.
// rounds > 1 re-uses the same arrays for consecutive calls; every round's result is written
// to o[round]. use_cpp: call pairing_product / miller_loop+final_exponentiation instead of the C symbol.
static long vf_pairing_sum_impl(void* o, size_t na, void* g1s, void* g2s, size_t np, void* preps, int dirty, int rounds,
                                const void* g1s2, const void* g2s2, const void* preps2) {
    embedded_pairing_bls12_381_affine_pair_t* ap = na ? (embedded_pairing_bls12_381_affine_pair_t*) malloc(na * sizeof(*ap)) : nullptr;
    embedded_pairing_bls12_381_prepared_pair_t* pp = np ? (embedded_pairing_bls12_381_prepared_pair_t*) malloc(np * sizeof(*pp)) : nullptr;
    G1Affine* g1 = (G1Affine*) g1s;
    G2Affine* g2 = (G2Affine*) g2s;
    G2Prepared* pr = (G2Prepared*) preps;
    long rv = 0;
    if (dirty) {
        if (ap) memset(ap, 0xA5, na * sizeof(*ap));
        if (pp) memset(pp, 0xA5, np * sizeof(*pp));
    }
    for (size_t i = 0; i != na; i++) {
        ap[i].g1 = (embedded_pairing_bls12_381_g1affine_t*) &g1[i];
        ap[i].g2 = (embedded_pairing_bls12_381_g2affine_t*) &g2[i];
    }
    for (size_t i = 0; i != np; i++) {
        pp[i].g1 = (embedded_pairing_bls12_381_g1affine_t*) &g1[na + i];
        pp[i].g2 = (embedded_pairing_bls12_381_g2prepared_t*) &pr[i];
    }
    // dirty & 2: pairs whose second (first) argument is byte-identical to the previous pair's refer to the same object, as a caller
    // computing e(P1,Q) * e(P2,Q) would pass them (only when the points are not replaced between rounds)
    if ((dirty & 2) && g1s2 == nullptr) {
        for (size_t i = 1; i < na; i++) {
            if (memcmp(&g2[i], &g2[i - 1], sizeof(G2Affine)) == 0) ap[i].g2 = ap[i - 1].g2;
            if (memcmp(&g1[i], &g1[i - 1], sizeof(G1Affine)) == 0) ap[i].g1 = ap[i - 1].g1;
        }
        for (size_t i = 1; i < np; i++) {
            if (memcmp(&pr[i], &pr[i - 1], sizeof(G2Prepared)) == 0) pp[i].g2 = pp[i - 1].g2;
        }
    }
    std::vector<void*> want;
    for (size_t i = 0; i != na; i++) { want.push_back(ap[i].g1); want.push_back(ap[i].g2); }
    for (size_t i = 0; i != np; i++) { want.push_back(pp[i].g1); want.push_back(pp[i].g2); }
    for (int r = 0; r != rounds; r++) {
        Fq12* out = ((Fq12*) o) + r;
        if (r != 0 && g1s2 != nullptr) {
            // the caller keeps its pair records and only changes the points they refer to
            memcpy(g1, g1s2, (na + np) * sizeof(G1Affine));
            if (na) memcpy(g2, g2s2, na * sizeof(G2Affine));
            if (np) memcpy(pr, preps2, np * sizeof(G2Prepared));
        }
        if (vf_use_cpp) {
            pairing_product(*out, (AffinePair*) ap, na, (PreparedPair*) pp, np);
        } else {
            embedded_pairing_bls12_381_pairing_sum((embedded_pairing_bls12_381_fq12_t*) out, ap, na, pp, np);
        }
        // the public fields of the caller's records are inputs
        for (size_t i = 0; i != na; i++) {
            if ((void*) ap[i].g1 != want[2 * i] || (void*) ap[i].g2 != want[2 * i + 1]) rv |= 1;
        }
        for (size_t i = 0; i != np; i++) {
            if ((void*) pp[i].g1 != want[2 * na + 2 * i] || (void*) pp[i].g2 != want[2 * na + 2 * i + 1]) rv |= 2;
        }
    }
    free(ap);
    free(pp);
    return rv;
}
VF_EXPORT long vf_pairing_sum(void* o, size_t na, const void* g1s, const void* g2s, size_t np, const void* preps, int dirty, int rounds) {
    return vf_pairing_sum_impl(o, na, (void*) g1s, (void*) g2s, np, (void*) preps, dirty, rounds, nullptr, nullptr, nullptr);
}
// second and later rounds run on other points written over the same storage (records untouched)
VF_EXPORT long vf_pairing_sum2(void* o, size_t na, void* g1s, void* g2s, size_t np, void* preps, int dirty, int rounds,
                               const void* g1s2, const void* g2s2, const void* preps2) {
    return vf_pairing_sum_impl(o, na, g1s, g2s, np, preps, dirty, rounds, g1s2, g2s2, preps2);
}

// ---------------------------------------------------------------------------------------
// C++ counterparts of C API functions that have no table entry (for the C19 differential)
// ---------------------------------------------------------------------------------------
VF_EXPORT void vf_encode_cpp(int g, int compressed, void* buf, const void* affine) {
    if (g == 1) {
        if (compressed) ((Encoding<G1Affine, true>*) buf)->encode(*(const G1Affine*) affine);
        else ((Encoding<G1Affine, false>*) buf)->encode(*(const G1Affine*) affine);
    } else {
        if (compressed) ((Encoding<G2Affine, true>*) buf)->encode(*(const G2Affine*) affine);
        else ((Encoding<G2Affine, false>*) buf)->encode(*(const G2Affine*) affine);
    }
}
VF_EXPORT long vf_decode_cpp(int g, int compressed, int checked, void* affine, const void* buf) {
    if (g == 1) {
        if (compressed) return ((const Encoding<G1Affine, true>*) buf)->decode(*(G1Affine*) affine, checked != 0);
        return ((const Encoding<G1Affine, false>*) buf)->decode(*(G1Affine*) affine, checked != 0);
    }
    if (compressed) return ((const Encoding<G2Affine, true>*) buf)->decode(*(G2Affine*) affine, checked != 0);
    return ((const Encoding<G2Affine, false>*) buf)->decode(*(G2Affine*) affine, checked != 0);
}
VF_EXPORT void vf_from_hash_cpp(int g, void* affine, const void* hash) {
    if (g == 1) ((G1Affine*) affine)->from_hash((const uint8_t*) hash);
    else ((G2Affine*) affine)->from_hash((const uint8_t*) hash);
}
VF_EXPORT void vf_zp_from_hash_cpp(void* out, const void* hash) {
    Fr* r = (Fr*) out;
    r->val.read_big_endian((const uint8_t*) hash);
    r->hash_reduce();
}
VF_EXPORT long vf_g2prepared_is_zero_cpp(const void* p) { return ((const G2Prepared*) p)->is_zero(); }
