// Common declarations of the verification shim (compiled against the working tree's headers).
#ifndef VF_SHIM_HPP_
#define VF_SHIM_HPP_

#include <stddef.h>
#include <stdint.h>
#include <stdlib.h>
#include <string.h>

#include "core/bigint.hpp"
#include "core/fp.hpp"
#include "core/fp_utils.hpp"
#include "bls12_381/fr.hpp"
#include "bls12_381/fq.hpp"
#include "bls12_381/fq2.hpp"
#include "bls12_381/fq6.hpp"
#include "bls12_381/fq12.hpp"
#include "bls12_381/curve.hpp"
#include "bls12_381/wnaf.hpp"
#include "bls12_381/decomposition.hpp"
#include "bls12_381/pairing.hpp"
#include "wkdibe/api.hpp"
#include "lqibe/api.hpp"

extern "C" {
#include "bls12_381/bls12_381.h"
#include "wkdibe/wkdibe.h"
#include "lqibe/lqibe.h"
}

#define VF_EXPORT extern "C" __attribute__((visibility("default")))

using embedded_pairing::core::BigInt;
using embedded_pairing::core::FpBase;
using namespace embedded_pairing::bls12_381;

// deterministic callbacks (thread-local state, see shim.cpp)
VF_EXPORT void vf_rand_bytes(void* out, size_t n);
VF_EXPORT void vf_hash_fill(void* out, size_t outlen, const void* in, size_t inlen);
extern thread_local int vf_use_cpp;

#endif
