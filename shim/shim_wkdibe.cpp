// WKD-IBE and LQ-IBE through the C API (or, with vf_use_cpp, the C++ functions the C API forwards to).
// Objects with caller-allocated arrays are heap objects whose arrays have exactly the documented number of
// elements plus a configurable number of guard slots that must stay untouched (0 in sanitizer builds).
#include "shim.hpp"

namespace wk = embedded_pairing::wkdibe;
namespace lq = embedded_pairing::lqibe;

static thread_local int vf_guard_slots = 16;
VF_EXPORT void vf_wk_set_guard(int n) { vf_guard_slots = n; }

static const uint8_t GUARD = 0xA5;

struct VfParams {
    embedded_pairing_wkdibe_params_t p;
    int cap;
};
struct VfSk {
    embedded_pairing_wkdibe_secretkey_t k;
    int cap;
};

// Arrays are pre-filled with "stale but plausible" contents, as a re-used object would have: every slot byte is GUARD and the
// index field of a free slot is (position % 8). Code that reads an element beyond the valid ones therefore finds a slot index
// that can match a real slot. The guard check knows the pattern. The slot counts start at a stale non-zero value.
static void fill_slots(embedded_pairing_wkdibe_freeslot_t* b, size_t n) {
    memset(b, GUARD, n * sizeof(*b));
    for (size_t i = 0; i != n; i++) b[i].idx = (uint32_t) (i % 8);
}
VF_EXPORT void* vf_wk_params_new(int l) {
    VfParams* o = (VfParams*) malloc(sizeof(VfParams));
    memset(o, 0xCD, sizeof(*o));
    o->cap = l;
    size_t n = (size_t) (l + vf_guard_slots);
    o->p.h = n ? (embedded_pairing_wkdibe_g1_t*) malloc(n * sizeof(embedded_pairing_wkdibe_g1_t)) : nullptr;
    if (n) memset(o->p.h, GUARD, n * sizeof(embedded_pairing_wkdibe_g1_t));
    o->p.l = l;
    return o;
}
VF_EXPORT void vf_wk_params_free(void* o) {
    if (o) { free(((VfParams*) o)->p.h); free(o); }
}
VF_EXPORT void* vf_wk_sk_new(int nslots) {
    VfSk* o = (VfSk*) malloc(sizeof(VfSk));
    memset(o, 0xCD, sizeof(*o));
    o->cap = nslots;
    size_t n = (size_t) (nslots + vf_guard_slots);
    o->k.b = n ? (embedded_pairing_wkdibe_freeslot_t*) malloc(n * sizeof(embedded_pairing_wkdibe_freeslot_t)) : nullptr;
    if (n) fill_slots(o->k.b, n);
    o->k.l = 3;      /* stale: whoever fills the key has to set it */
    return o;
}
VF_EXPORT void vf_wk_sk_free(void* o) {
    if (o) { free(((VfSk*) o)->k.b); free(o); }
}
// number of guard bytes overwritten behind the documented allocation (0 = clean)
static long guard_damage(const void* arr, size_t elem, int cap) {
    const uint8_t* p = (const uint8_t*) arr + (size_t) cap * elem;
    long bad = 0;
    for (size_t i = 0; i != (size_t) vf_guard_slots * elem; i++) {
        if (p[i] != GUARD) bad++;
    }
    return bad;
}
VF_EXPORT long vf_wk_sk_guard(void* o) {
    VfSk* s = (VfSk*) o;
    if (!s->k.b) return 0;
    long bad = 0;
    embedded_pairing_wkdibe_freeslot_t ref;
    for (int i = s->cap; i != s->cap + vf_guard_slots; i++) {
        memset(&ref, GUARD, sizeof(ref));
        ref.idx = (uint32_t) (i % 8);
        const uint8_t* a = (const uint8_t*) &s->k.b[i];
        const uint8_t* r = (const uint8_t*) &ref;
        for (size_t j = 0; j != sizeof(ref); j++) if (a[j] != r[j]) bad++;
    }
    return bad;
}
VF_EXPORT long vf_wk_params_guard(void* o) {
    VfParams* s = (VfParams*) o;
    return s->p.h ? guard_damage(s->p.h, sizeof(embedded_pairing_wkdibe_g1_t), s->cap) : 0;
}
VF_EXPORT void* vf_alloc(size_t n) {
    void* p = malloc(n ? n : 1);
    memset(p, 0xCD, n ? n : 1);
    return p;
}
VF_EXPORT void vf_free(void* p) { free(p); }
VF_EXPORT long vf_wk_sizeof(int kind) {
    switch (kind) {
    case 1: return sizeof(embedded_pairing_wkdibe_masterkey_t);
    case 3: return sizeof(embedded_pairing_wkdibe_ciphertext_t);
    case 4: return sizeof(embedded_pairing_wkdibe_signature_t);
    case 5: return sizeof(embedded_pairing_wkdibe_precomputed_t);
    }
    return -1;
}

// attribute lists: exact-size heap array under sanitizers; otherwise the array is followed by two "stale but plausible" entries, as a
// longer list that was cut down by lowering `length` would leave them (next slot indices, junk values): code that looks one entry past
// the end finds something that can match a real slot instead of heap noise
struct VfAttrs {
    embedded_pairing_wkdibe_attributelist_t list;
    bool shared;      // attrs points into another list's array (prefix view)
};
static VfAttrs* mk_attrs(const uint8_t* ids, const uint32_t* idxs, const uint8_t* omits, size_t n, int omit_all) {
    VfAttrs* a = (VfAttrs*) malloc(sizeof(VfAttrs));
    size_t extra = vf_guard_slots ? 2 : 0;
    a->shared = false;
    a->list.attrs = (n + extra) ? (embedded_pairing_wkdibe_attribute_t*) malloc((n + extra) * sizeof(embedded_pairing_wkdibe_attribute_t)) : nullptr;
    for (size_t i = 0; i != n; i++) {
        memset(&a->list.attrs[i], 0, sizeof(a->list.attrs[i]));
        memcpy(&a->list.attrs[i].id, ids + 32 * i, 32);
        a->list.attrs[i].idx = idxs[i];
        a->list.attrs[i].omitFromKeys = omits[i] != 0;
    }
    for (size_t i = n; i != n + extra; i++) {
        memset(&a->list.attrs[i], 0, sizeof(a->list.attrs[i]));
        memset(&a->list.attrs[i].id, 0x5A, 31);
        a->list.attrs[i].idx = (n ? idxs[n - 1] : (uint32_t) -1) + 1 + (uint32_t) (i - n);
        a->list.attrs[i].omitFromKeys = false;
    }
    a->list.length = n;
    a->list.omitAllFromKeysUnlessPresent = omit_all != 0;
    return a;
}
static void rm_attrs(VfAttrs* a) { if (!a->shared) free(a->list.attrs); free(a); }
// two lists handed to one call: when one is an entry-for-entry prefix of the other, the caller may well pass two views of one
// array (same pointer, different lengths) - do that, so that code comparing pointers instead of contents is exercised
static void share_prefix(VfAttrs* x, VfAttrs* y) {
    VfAttrs* lo = x->list.length <= y->list.length ? x : y;
    VfAttrs* hi = lo == x ? y : x;
    if (lo->list.length == 0 || lo->shared || hi->shared) return;
    for (size_t i = 0; i != lo->list.length; i++) {
        const embedded_pairing_wkdibe_attribute_t& p = lo->list.attrs[i];
        const embedded_pairing_wkdibe_attribute_t& q = hi->list.attrs[i];
        if (p.idx != q.idx || p.omitFromKeys != q.omitFromKeys || memcmp(&p.id, &q.id, 32) != 0) return;
    }
    free(lo->list.attrs);
    lo->list.attrs = hi->list.attrs;
    lo->shared = true;
}

#define ATTR_ARGS(p) const uint8_t* p##ids, const uint32_t* p##idxs, const uint8_t* p##omits, size_t p##n, int p##all
#define ATTR_MK(p) mk_attrs(p##ids, p##idxs, p##omits, p##n, p##all)
#define CPP(T, x) (*reinterpret_cast<T*>(x))
#define CCPP(T, x) (*reinterpret_cast<const T*>(x))

VF_EXPORT void vf_wk_setup(void* params, void* msk, int l, int signatures) {
    VfParams* p = (VfParams*) params;
    if (vf_use_cpp) wk::setup(CPP(wk::Params, &p->p), CPP(wk::MasterKey, msk), l, signatures != 0, vf_rand_bytes);
    else embedded_pairing_wkdibe_setup(&p->p, (embedded_pairing_wkdibe_masterkey_t*) msk, l, signatures != 0, vf_rand_bytes);
}
VF_EXPORT void vf_wk_keygen(void* sk, void* params, void* msk, ATTR_ARGS(a), int nondelegable) {
    VfAttrs* a = ATTR_MK(a);
    VfSk* s = (VfSk*) sk;
    VfParams* p = (VfParams*) params;
    const embedded_pairing_wkdibe_masterkey_t* m = (const embedded_pairing_wkdibe_masterkey_t*) msk;
    if (nondelegable) {
        if (vf_use_cpp) wk::nondelegable_keygen(CPP(wk::SecretKey, &s->k), CCPP(wk::Params, &p->p), CCPP(wk::MasterKey, m), CCPP(wk::AttributeList, &a->list));
        else embedded_pairing_wkdibe_nondelegable_keygen(&s->k, &p->p, m, &a->list);
    } else {
        if (vf_use_cpp) wk::keygen(CPP(wk::SecretKey, &s->k), CCPP(wk::Params, &p->p), CCPP(wk::MasterKey, m), CCPP(wk::AttributeList, &a->list), vf_rand_bytes);
        else embedded_pairing_wkdibe_keygen(&s->k, &p->p, m, &a->list, vf_rand_bytes);
    }
    rm_attrs(a);
}
VF_EXPORT void vf_wk_qualify(void* out, void* params, void* sk, ATTR_ARGS(a), int nondelegable) {
    VfAttrs* a = ATTR_MK(a);
    VfSk* o = (VfSk*) out;
    VfSk* s = (VfSk*) sk;
    VfParams* p = (VfParams*) params;
    if (nondelegable) {
        if (vf_use_cpp) wk::nondelegable_qualifykey(CPP(wk::SecretKey, &o->k), CCPP(wk::Params, &p->p), CCPP(wk::SecretKey, &s->k), CCPP(wk::AttributeList, &a->list));
        else embedded_pairing_wkdibe_nondelegable_qualifykey(&o->k, &p->p, &s->k, &a->list);
    } else {
        if (vf_use_cpp) wk::qualifykey(CPP(wk::SecretKey, &o->k), CCPP(wk::Params, &p->p), CCPP(wk::SecretKey, &s->k), CCPP(wk::AttributeList, &a->list), vf_rand_bytes);
        else embedded_pairing_wkdibe_qualifykey(&o->k, &p->p, &s->k, &a->list, vf_rand_bytes);
    }
    rm_attrs(a);
}
VF_EXPORT void vf_wk_adjust_nd(void* sk, void* parent, ATTR_ARGS(f), ATTR_ARGS(t)) {
    VfAttrs* f = ATTR_MK(f);
    VfAttrs* t = ATTR_MK(t);
    share_prefix(f, t);
    VfSk* s = (VfSk*) sk;
    VfSk* p = (VfSk*) parent;
    if (vf_use_cpp) wk::adjust_nondelegable(CPP(wk::SecretKey, &s->k), CCPP(wk::SecretKey, &p->k), CCPP(wk::AttributeList, &f->list), CCPP(wk::AttributeList, &t->list));
    else embedded_pairing_wkdibe_adjust_nondelegable(&s->k, &p->k, &f->list, &t->list);
    rm_attrs(f);
    rm_attrs(t);
}
VF_EXPORT void vf_wk_precompute(void* pre, void* params, ATTR_ARGS(a)) {
    VfAttrs* a = ATTR_MK(a);
    VfParams* p = (VfParams*) params;
    if (vf_use_cpp) wk::precompute(CPP(wk::Precomputed, pre), CCPP(wk::Params, &p->p), CCPP(wk::AttributeList, &a->list));
    else embedded_pairing_wkdibe_precompute((embedded_pairing_wkdibe_precomputed_t*) pre, &p->p, &a->list);
    rm_attrs(a);
}
VF_EXPORT void vf_wk_adjust_pre(void* pre, void* params, ATTR_ARGS(f), ATTR_ARGS(t)) {
    VfAttrs* f = ATTR_MK(f);
    VfAttrs* t = ATTR_MK(t);
    share_prefix(f, t);
    VfParams* p = (VfParams*) params;
    if (vf_use_cpp) wk::adjust_precomputed(CPP(wk::Precomputed, pre), CCPP(wk::Params, &p->p), CCPP(wk::AttributeList, &f->list), CCPP(wk::AttributeList, &t->list));
    else embedded_pairing_wkdibe_adjust_precomputed((embedded_pairing_wkdibe_precomputed_t*) pre, &p->p, &f->list, &t->list);
    rm_attrs(f);
    rm_attrs(t);
}
VF_EXPORT void vf_wk_resample(void* out, void* params, void* pre, void* sk, int further) {
    VfSk* o = (VfSk*) out;
    VfSk* s = (VfSk*) sk;
    VfParams* p = (VfParams*) params;
    if (vf_use_cpp) wk::resamplekey(CPP(wk::SecretKey, &o->k), CCPP(wk::Params, &p->p), CCPP(wk::Precomputed, pre), CCPP(wk::SecretKey, &s->k), further != 0, vf_rand_bytes);
    else embedded_pairing_wkdibe_resamplekey(&o->k, &p->p, (const embedded_pairing_wkdibe_precomputed_t*) pre, &s->k, further != 0, vf_rand_bytes);
}
VF_EXPORT void vf_wk_encrypt(void* ct, const void* msg, void* params, ATTR_ARGS(a), void* pre) {
    VfParams* p = (VfParams*) params;
    if (pre != nullptr) {
        if (vf_use_cpp) wk::encrypt_precomputed(CPP(wk::Ciphertext, ct), CCPP(wk::GT, msg), CCPP(wk::Params, &p->p), CCPP(wk::Precomputed, pre), vf_rand_bytes);
        else embedded_pairing_wkdibe_encrypt_precomputed((embedded_pairing_wkdibe_ciphertext_t*) ct, (const embedded_pairing_wkdibe_gt_t*) msg, &p->p, (const embedded_pairing_wkdibe_precomputed_t*) pre, vf_rand_bytes);
        return;
    }
    VfAttrs* a = ATTR_MK(a);
    if (vf_use_cpp) wk::encrypt(CPP(wk::Ciphertext, ct), CCPP(wk::GT, msg), CCPP(wk::Params, &p->p), CCPP(wk::AttributeList, &a->list), vf_rand_bytes);
    else embedded_pairing_wkdibe_encrypt((embedded_pairing_wkdibe_ciphertext_t*) ct, (const embedded_pairing_wkdibe_gt_t*) msg, &p->p, &a->list, vf_rand_bytes);
    rm_attrs(a);
}
VF_EXPORT void vf_wk_decrypt(void* msg, const void* ct, void* sk, const void* msk) {
    if (msk != nullptr) {
        if (vf_use_cpp) wk::decrypt_master(CPP(wk::GT, msg), CCPP(wk::Ciphertext, ct), CCPP(wk::MasterKey, msk));
        else embedded_pairing_wkdibe_decrypt_master((embedded_pairing_wkdibe_gt_t*) msg, (const embedded_pairing_wkdibe_ciphertext_t*) ct, (const embedded_pairing_wkdibe_masterkey_t*) msk);
        return;
    }
    VfSk* s = (VfSk*) sk;
    if (vf_use_cpp) wk::decrypt(CPP(wk::GT, msg), CCPP(wk::Ciphertext, ct), CCPP(wk::SecretKey, &s->k));
    else embedded_pairing_wkdibe_decrypt((embedded_pairing_wkdibe_gt_t*) msg, (const embedded_pairing_wkdibe_ciphertext_t*) ct, &s->k);
}
// attrs_mode: 0 = pass the list, 1 = pass NULL (only valid with pre != NULL)
VF_EXPORT void vf_wk_sign(void* sig, void* params, void* sk, ATTR_ARGS(a), int attrs_null, void* pre, const void* msg) {
    VfParams* p = (VfParams*) params;
    VfSk* s = (VfSk*) sk;
    VfAttrs* a = attrs_null ? nullptr : ATTR_MK(a);
    const embedded_pairing_wkdibe_attributelist_t* al = a ? &a->list : nullptr;
    if (pre != nullptr) {
        if (vf_use_cpp) wk::sign_precomputed(CPP(wk::Signature, sig), CCPP(wk::Params, &p->p), CCPP(wk::SecretKey, &s->k), reinterpret_cast<const wk::AttributeList*>(al), CCPP(wk::Precomputed, pre), CCPP(wk::Scalar, msg), vf_rand_bytes);
        else embedded_pairing_wkdibe_sign_precomputed((embedded_pairing_wkdibe_signature_t*) sig, &p->p, &s->k, al, (const embedded_pairing_wkdibe_precomputed_t*) pre, (const embedded_pairing_wkdibe_scalar_t*) msg, vf_rand_bytes);
    } else {
        if (vf_use_cpp) wk::sign(CPP(wk::Signature, sig), CCPP(wk::Params, &p->p), CCPP(wk::SecretKey, &s->k), reinterpret_cast<const wk::AttributeList*>(al), CCPP(wk::Scalar, msg), vf_rand_bytes);
        else embedded_pairing_wkdibe_sign((embedded_pairing_wkdibe_signature_t*) sig, &p->p, &s->k, al, (const embedded_pairing_wkdibe_scalar_t*) msg, vf_rand_bytes);
    }
    if (a) rm_attrs(a);
}
VF_EXPORT long vf_wk_verify(void* params, ATTR_ARGS(a), void* pre, const void* sig, const void* msg) {
    VfParams* p = (VfParams*) params;
    if (pre != nullptr) {
        if (vf_use_cpp) return wk::verify_precomputed(CCPP(wk::Params, &p->p), CCPP(wk::Precomputed, pre), CCPP(wk::Signature, sig), CCPP(wk::Scalar, msg));
        return embedded_pairing_wkdibe_verify_precomputed(&p->p, (const embedded_pairing_wkdibe_precomputed_t*) pre, (const embedded_pairing_wkdibe_signature_t*) sig, (const embedded_pairing_wkdibe_scalar_t*) msg);
    }
    VfAttrs* a = ATTR_MK(a);
    long r;
    if (vf_use_cpp) r = wk::verify(CCPP(wk::Params, &p->p), CCPP(wk::AttributeList, &a->list), CCPP(wk::Signature, sig), CCPP(wk::Scalar, msg));
    else r = embedded_pairing_wkdibe_verify(&p->p, &a->list, (const embedded_pairing_wkdibe_signature_t*) sig, (const embedded_pairing_wkdibe_scalar_t*) msg);
    rm_attrs(a);
    return r;
}

// ---- field access -----------------------------------------------------------------------------
// kind: 0 params, 2 secret key. Returns the field size (copied to out) or the integer value.
VF_EXPORT long vf_wk_get(int kind, void* obj, int field, int index, void* out) {
#define G(expr) { memcpy(out, &(expr), sizeof(expr)); return (long) sizeof(expr); }
    if (kind == 0) {
        embedded_pairing_wkdibe_params_t& p = ((VfParams*) obj)->p;
        switch (field) {
        case 0: G(p.g) case 1: G(p.g1) case 2: G(p.g2) case 3: G(p.g3) case 4: G(p.pairing) case 5: G(p.hsig)
        case 6: return p.signatures ? 1 : 0;
        case 7: return p.l;
        case 8: G(p.h[index])
        }
    } else if (kind == 2) {
        embedded_pairing_wkdibe_secretkey_t& k = ((VfSk*) obj)->k;
        switch (field) {
        case 0: G(k.a0) case 1: G(k.a1) case 2: return k.l; case 3: return k.signatures ? 1 : 0; case 4: G(k.bsig)
        case 5: return (long) k.b[index].idx;
        case 6: G(k.b[index].hexp)
        }
    }
#undef G
    return -99;
}
VF_EXPORT long vf_wk_set(int kind, void* obj, int field, int index, const void* in, long ival) {
#define S(expr) { memcpy(&(expr), in, sizeof(expr)); return 0; }
    if (kind == 0) {
        embedded_pairing_wkdibe_params_t& p = ((VfParams*) obj)->p;
        switch (field) {
        case 0: S(p.g) case 1: S(p.g1) case 2: S(p.g2) case 3: S(p.g3) case 4: S(p.pairing) case 5: S(p.hsig)
        case 6: p.signatures = ival != 0; return 0;
        case 7: p.l = (int) ival; return 0;
        case 8: S(p.h[index])
        }
    } else if (kind == 2) {
        embedded_pairing_wkdibe_secretkey_t& k = ((VfSk*) obj)->k;
        switch (field) {
        case 0: S(k.a0) case 1: S(k.a1) case 2: k.l = (int) ival; return 0; case 3: k.signatures = ival != 0; return 0; case 4: S(k.bsig)
        case 5: k.b[index].idx = (uint32_t) ival; return 0;
        case 6: S(k.b[index].hexp)
        }
    }
#undef S
    return -99;
}

// ---- marshalling --------------------------------------------------------------------------------
// kind: 0 params, 1 master key, 2 secret key, 3 ciphertext, 4 signature
VF_EXPORT long vf_wk_marshalled_length(int kind, void* obj, int compressed) {
    bool c = compressed != 0;
    switch (kind) {
    case 0: return vf_use_cpp ? (c ? CCPP(wk::Params, &((VfParams*) obj)->p).getMarshalledLength<true>() : CCPP(wk::Params, &((VfParams*) obj)->p).getMarshalledLength<false>())
                              : embedded_pairing_wkdibe_params_get_marshalled_length(&((VfParams*) obj)->p, c);
    case 1: return embedded_pairing_wkdibe_masterkey_get_marshalled_length(c);
    case 2: return vf_use_cpp ? (c ? CCPP(wk::SecretKey, &((VfSk*) obj)->k).getMarshalledLength<true>() : CCPP(wk::SecretKey, &((VfSk*) obj)->k).getMarshalledLength<false>())
                              : embedded_pairing_wkdibe_secretkey_get_marshalled_length(&((VfSk*) obj)->k, c);
    case 3: return embedded_pairing_wkdibe_ciphertext_get_marshalled_length(c);
    case 4: return embedded_pairing_wkdibe_signature_get_marshalled_length(c);
    }
    return -99;
}
VF_EXPORT void vf_wk_marshal(int kind, void* buf, void* obj, int compressed) {
    bool c = compressed != 0;
    switch (kind) {
    case 0:
        if (vf_use_cpp) { if (c) CCPP(wk::Params, &((VfParams*) obj)->p).marshal<true>(buf); else CCPP(wk::Params, &((VfParams*) obj)->p).marshal<false>(buf); }
        else embedded_pairing_wkdibe_params_marshal(buf, &((VfParams*) obj)->p, c);
        return;
    case 1:
        if (vf_use_cpp) { if (c) CCPP(wk::MasterKey, obj).marshal<true>(buf); else CCPP(wk::MasterKey, obj).marshal<false>(buf); }
        else embedded_pairing_wkdibe_masterkey_marshal(buf, (const embedded_pairing_wkdibe_masterkey_t*) obj, c);
        return;
    case 2:
        if (vf_use_cpp) { if (c) CCPP(wk::SecretKey, &((VfSk*) obj)->k).marshal<true>(buf); else CCPP(wk::SecretKey, &((VfSk*) obj)->k).marshal<false>(buf); }
        else embedded_pairing_wkdibe_secretkey_marshal(buf, &((VfSk*) obj)->k, c);
        return;
    case 3:
        if (vf_use_cpp) { if (c) CCPP(wk::Ciphertext, obj).marshal<true>(buf); else CCPP(wk::Ciphertext, obj).marshal<false>(buf); }
        else embedded_pairing_wkdibe_ciphertext_marshal(buf, (const embedded_pairing_wkdibe_ciphertext_t*) obj, c);
        return;
    case 4:
        if (vf_use_cpp) { if (c) CCPP(wk::Signature, obj).marshal<true>(buf); else CCPP(wk::Signature, obj).marshal<false>(buf); }
        else embedded_pairing_wkdibe_signature_marshal(buf, (const embedded_pairing_wkdibe_signature_t*) obj, c);
        return;
    }
}
VF_EXPORT long vf_wk_unmarshal(int kind, void* obj, const void* buf, int compressed, int checked) {
    bool c = compressed != 0, k = checked != 0;
    switch (kind) {
    case 0:
        if (vf_use_cpp) return c ? CPP(wk::Params, &((VfParams*) obj)->p).unmarshal<true>(buf, k) : CPP(wk::Params, &((VfParams*) obj)->p).unmarshal<false>(buf, k);
        return embedded_pairing_wkdibe_params_unmarshal(&((VfParams*) obj)->p, buf, c, k);
    case 1:
        if (vf_use_cpp) return c ? CPP(wk::MasterKey, obj).unmarshal<true>(buf, k) : CPP(wk::MasterKey, obj).unmarshal<false>(buf, k);
        return embedded_pairing_wkdibe_masterkey_unmarshal((embedded_pairing_wkdibe_masterkey_t*) obj, buf, c, k);
    case 2:
        if (vf_use_cpp) return c ? CPP(wk::SecretKey, &((VfSk*) obj)->k).unmarshal<true>(buf, k) : CPP(wk::SecretKey, &((VfSk*) obj)->k).unmarshal<false>(buf, k);
        return embedded_pairing_wkdibe_secretkey_unmarshal(&((VfSk*) obj)->k, buf, c, k);
    case 3:
        if (vf_use_cpp) return c ? CPP(wk::Ciphertext, obj).unmarshal<true>(buf, k) : CPP(wk::Ciphertext, obj).unmarshal<false>(buf, k);
        return embedded_pairing_wkdibe_ciphertext_unmarshal((embedded_pairing_wkdibe_ciphertext_t*) obj, buf, c, k);
    case 4:
        if (vf_use_cpp) return c ? CPP(wk::Signature, obj).unmarshal<true>(buf, k) : CPP(wk::Signature, obj).unmarshal<false>(buf, k);
        return embedded_pairing_wkdibe_signature_unmarshal((embedded_pairing_wkdibe_signature_t*) obj, buf, c, k);
    }
    return -99;
}
// length discovery; which: 0 = *_set_length on the object, 1 = *_unmarshalled_length
VF_EXPORT long vf_wk_length_from(int kind, void* obj, const void* buf, size_t len, int compressed, int which) {
    bool c = compressed != 0;
    if (vf_use_cpp) {
        if (kind == 0) {
            if (which == 1) return c ? wk::Params::unmarshalledLength<true>(buf, len) : wk::Params::unmarshalledLength<false>(buf, len);
            return c ? CPP(wk::Params, &((VfParams*) obj)->p).setLength<true>(buf, len) : CPP(wk::Params, &((VfParams*) obj)->p).setLength<false>(buf, len);
        }
        if (which == 1) return c ? wk::SecretKey::unmarshalledLength<true>(buf, len) : wk::SecretKey::unmarshalledLength<false>(buf, len);
        return c ? CPP(wk::SecretKey, &((VfSk*) obj)->k).setLength<true>(buf, len) : CPP(wk::SecretKey, &((VfSk*) obj)->k).setLength<false>(buf, len);
    }
    if (kind == 0) {
        if (which == 1) return embedded_pairing_wkdibe_params_unmarshalled_length(buf, len, c);
        return embedded_pairing_wkdibe_params_set_length(&((VfParams*) obj)->p, buf, len, c);
    }
    if (which == 1) return embedded_pairing_wkdibe_secretkey_unmarshalled_length(buf, len, c);
    return embedded_pairing_wkdibe_secretkey_set_length(&((VfSk*) obj)->k, buf, len, c);
}
VF_EXPORT long vf_wk_length_formula(int kind, int length, int signatures, int compressed) {
    if (vf_use_cpp) {
        bool sg = signatures != 0;
        if (kind == 0) return (long) (compressed ? wk::Params::marshalledLength<true>(length, sg) : wk::Params::marshalledLength<false>(length, sg));
        return (long) (compressed ? wk::SecretKey::marshalledLength<true>(length, sg) : wk::SecretKey::marshalledLength<false>(length, sg));
    }
    if (kind == 0) return (long) embedded_pairing_wkdibe_params_marshalled_length(length, signatures != 0, compressed != 0);
    return (long) embedded_pairing_wkdibe_secretkey_marshalled_length(length, signatures != 0, compressed != 0);
}

// small wrappers of wkdibe.h without objects: what = 0 scalar_hash_reduce (in place on out), 1 random_zpstar, 2 random_g1, 3 random_g2, 4 random_gt
VF_EXPORT void vf_wk_misc(int what, void* out) {
    if (vf_use_cpp) {
        switch (what) {
        case 0: wk::scalar_hash_reduce(*(wk::Scalar*) out); return;
        case 1: wk::random_zpstar(*(wk::Scalar*) out, vf_rand_bytes); return;
        case 2: wk::random_g1(*(wk::G1*) out, vf_rand_bytes); return;
        case 3: wk::random_g2(*(wk::G2*) out, vf_rand_bytes); return;
        case 4: wk::random_gt(*(wk::GT*) out, vf_rand_bytes); return;
        }
        return;
    }
    switch (what) {
    case 0: embedded_pairing_wkdibe_scalar_hash_reduce((embedded_pairing_wkdibe_scalar_t*) out); return;
    case 1: embedded_pairing_wkdibe_random_zpstar((embedded_pairing_wkdibe_scalar_t*) out, vf_rand_bytes); return;
    case 2: embedded_pairing_wkdibe_random_g1((embedded_pairing_wkdibe_g1_t*) out, vf_rand_bytes); return;
    case 3: embedded_pairing_wkdibe_random_g2((embedded_pairing_wkdibe_g2_t*) out, vf_rand_bytes); return;
    case 4: embedded_pairing_wkdibe_random_gt((embedded_pairing_wkdibe_gt_t*) out, vf_rand_bytes); return;
    }
}
// fixed-size objects: marshalled length by kind (1 master key, 3 ciphertext, 4 signature)
VF_EXPORT long vf_wk_fixed_length(int kind, int compressed) {
    bool c = compressed != 0;
    if (vf_use_cpp) {
        switch (kind) {
        case 1: return (long) (c ? wk::MasterKey::marshalledLength<true> : wk::MasterKey::marshalledLength<false>);
        case 3: return (long) (c ? wk::Ciphertext::marshalledLength<true> : wk::Ciphertext::marshalledLength<false>);
        case 4: return (long) (c ? wk::Signature::marshalledLength<true> : wk::Signature::marshalledLength<false>);
        }
        return -99;
    }
    switch (kind) {
    case 1: return (long) embedded_pairing_wkdibe_masterkey_get_marshalled_length(c);
    case 3: return (long) embedded_pairing_wkdibe_ciphertext_get_marshalled_length(c);
    case 4: return (long) embedded_pairing_wkdibe_signature_get_marshalled_length(c);
    }
    return -99;
}

// the two-output sampler used by setup/keygen/qualifykey/encrypt/sign: decomposed exponent + the scalar it represents
VF_EXPORT void vf_wk_random_zpstar_px(void* px, void* s) {
    wk::random_zpstar(*(embedded_pairing::bls12_381::PowersOfX*) px, *(wk::Scalar*) s, vf_rand_bytes);
}

// ---- LQ-IBE (flat objects; images are passed directly) -------------------------------------------
VF_EXPORT long vf_lq_sizeof(int kind) {
    switch (kind) {
    case 0: return sizeof(embedded_pairing_lqibe_params_t);
    case 1: return sizeof(embedded_pairing_lqibe_id_t);
    case 2: return sizeof(embedded_pairing_lqibe_masterkey_t);
    case 3: return sizeof(embedded_pairing_lqibe_secretkey_t);
    case 4: return sizeof(embedded_pairing_lqibe_ciphertext_t);
    }
    return -1;
}
VF_EXPORT void vf_lq_setup(void* params, void* msk) {
    if (vf_use_cpp) lq::setup(CPP(lq::Params, params), CPP(lq::MasterKey, msk), vf_rand_bytes);
    else embedded_pairing_lqibe_setup((embedded_pairing_lqibe_params_t*) params, (embedded_pairing_lqibe_masterkey_t*) msk, vf_rand_bytes);
}
VF_EXPORT void vf_lq_id(void* id, const void* hash) {
    if (vf_use_cpp) lq::compute_id_from_hash(CPP(lq::ID, id), CCPP(lq::IDHash, hash));
    else embedded_pairing_lqibe_compute_id_from_hash((embedded_pairing_lqibe_id_t*) id, (const embedded_pairing_lqibe_idhash_t*) hash);
}
VF_EXPORT void vf_lq_keygen(void* sk, const void* msk, const void* id) {
    if (vf_use_cpp) lq::keygen(CPP(lq::SecretKey, sk), CCPP(lq::MasterKey, msk), CCPP(lq::ID, id));
    else embedded_pairing_lqibe_keygen((embedded_pairing_lqibe_secretkey_t*) sk, (const embedded_pairing_lqibe_masterkey_t*) msk, (const embedded_pairing_lqibe_id_t*) id);
}
VF_EXPORT void vf_lq_encrypt(void* ct, void* sym, size_t symlen, const void* params, const void* id) {
    if (vf_use_cpp) lq::encrypt(CPP(lq::Ciphertext, ct), sym, symlen, CCPP(lq::Params, params), CCPP(lq::ID, id), vf_hash_fill, vf_rand_bytes);
    else embedded_pairing_lqibe_encrypt((embedded_pairing_lqibe_ciphertext_t*) ct, sym, symlen, (const embedded_pairing_lqibe_params_t*) params, (const embedded_pairing_lqibe_id_t*) id, vf_hash_fill, vf_rand_bytes);
}
VF_EXPORT void vf_lq_decrypt(void* sym, size_t symlen, const void* ct, const void* sk, const void* id) {
    if (vf_use_cpp) lq::decrypt(sym, symlen, CCPP(lq::Ciphertext, ct), CCPP(lq::SecretKey, sk), CCPP(lq::ID, id), vf_hash_fill);
    else embedded_pairing_lqibe_decrypt(sym, symlen, (const embedded_pairing_lqibe_ciphertext_t*) ct, (const embedded_pairing_lqibe_secretkey_t*) sk, (const embedded_pairing_lqibe_id_t*) id, vf_hash_fill);
}
// kind: 0 params, 1 id, 2 master key, 3 secret key, 4 ciphertext
#define LQ_LEN(T) (c ? (long) lq::T::marshalledLength<true> : (long) lq::T::marshalledLength<false>)
#define LQ_MAR(T) do { if (c) CCPP(lq::T, obj).marshal<true>(buf); else CCPP(lq::T, obj).marshal<false>(buf); } while (0)
#define LQ_UNM(T) (c ? CPP(lq::T, obj).unmarshal<true>(buf, k) : CPP(lq::T, obj).unmarshal<false>(buf, k))
VF_EXPORT long vf_lq_marshalled_length(int kind, int compressed) {
    bool c = compressed != 0;
    if (vf_use_cpp) switch (kind) {
    case 0: return LQ_LEN(Params);
    case 1: return LQ_LEN(ID);
    case 2: return LQ_LEN(MasterKey);
    case 3: return LQ_LEN(SecretKey);
    case 4: return LQ_LEN(Ciphertext);
    }
    switch (kind) {
    case 0: return embedded_pairing_lqibe_params_get_marshalled_length(c);
    case 1: return embedded_pairing_lqibe_id_get_marshalled_length(c);
    case 2: return embedded_pairing_lqibe_masterkey_get_marshalled_length(c);
    case 3: return embedded_pairing_lqibe_secretkey_get_marshalled_length(c);
    case 4: return embedded_pairing_lqibe_ciphertext_get_marshalled_length(c);
    }
    return -99;
}
VF_EXPORT void vf_lq_marshal(int kind, void* buf, const void* obj, int compressed) {
    bool c = compressed != 0;
    if (vf_use_cpp) switch (kind) {
    case 0: LQ_MAR(Params); return;
    case 1: LQ_MAR(ID); return;
    case 2: LQ_MAR(MasterKey); return;
    case 3: LQ_MAR(SecretKey); return;
    case 4: LQ_MAR(Ciphertext); return;
    }
    switch (kind) {
    case 0: embedded_pairing_lqibe_params_marshal(buf, (const embedded_pairing_lqibe_params_t*) obj, c); return;
    case 1: embedded_pairing_lqibe_id_marshal(buf, (const embedded_pairing_lqibe_id_t*) obj, c); return;
    case 2: embedded_pairing_lqibe_masterkey_marshal(buf, (const embedded_pairing_lqibe_masterkey_t*) obj, c); return;
    case 3: embedded_pairing_lqibe_secretkey_marshal(buf, (const embedded_pairing_lqibe_secretkey_t*) obj, c); return;
    case 4: embedded_pairing_lqibe_ciphertext_marshal(buf, (const embedded_pairing_lqibe_ciphertext_t*) obj, c); return;
    }
}
VF_EXPORT long vf_lq_unmarshal(int kind, void* obj, const void* buf, int compressed, int checked) {
    bool c = compressed != 0, k = checked != 0;
    if (vf_use_cpp) switch (kind) {
    case 0: return LQ_UNM(Params);
    case 1: return LQ_UNM(ID);
    case 2: return LQ_UNM(MasterKey);
    case 3: return LQ_UNM(SecretKey);
    case 4: return LQ_UNM(Ciphertext);
    }
    switch (kind) {
    case 0: return embedded_pairing_lqibe_params_unmarshal((embedded_pairing_lqibe_params_t*) obj, buf, c, k);
    case 1: return embedded_pairing_lqibe_id_unmarshal((embedded_pairing_lqibe_id_t*) obj, buf, c, k);
    case 2: return embedded_pairing_lqibe_masterkey_unmarshal((embedded_pairing_lqibe_masterkey_t*) obj, buf, c, k);
    case 3: return embedded_pairing_lqibe_secretkey_unmarshal((embedded_pairing_lqibe_secretkey_t*) obj, buf, c, k);
    case 4: return embedded_pairing_lqibe_ciphertext_unmarshal((embedded_pairing_lqibe_ciphertext_t*) obj, buf, c, k);
    }
    return -99;
}
