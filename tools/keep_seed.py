#!/usr/bin/env python3
"""keep_seed.py <srcdir> <seed-id> <property> <needs> <caught_by comma list> [confirm-log]"""
import json, os, shutil, sys
src, sid, prop, needs, caught = sys.argv[1:6]
log = open(sys.argv[6]).read().strip() if len(sys.argv) > 6 and os.path.exists(sys.argv[6]) else ""
dst = os.path.join("/verif/seeded", sid)
os.makedirs(dst, exist_ok=True)
for f in ("patch.diff", "demo.cpp", "run_demo.sh", "NOTES.md"):
    if os.path.exists(os.path.join(src, f)):
        shutil.copy(os.path.join(src, f), os.path.join(dst, f))
meta = {"id": sid, "property": prop, "origin": "independent sub-agent given only the property text and a scratch worktree",
        "needs_to_manifest": needs, "caught_by": [c for c in caught.split(",") if c],
        "confirmed": {"how": "tools/confirm_seed.sh in a scratch worktree: demo passes on the clean tree, patch applies, tests/test output unchanged (71 PASS), demo fails with the patch", "result": log},
        "check_run": "./selftest seeded/%s/patch.diff <ID> (scratch copy of /repo with the patch; expects VIOLATION)" % sid}
json.dump(meta, open(os.path.join(dst, "meta.json"), "w"), indent=1)
print("kept", dst)
