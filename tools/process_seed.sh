#!/bin/bash
# usage: process_seed.sh <dir> <PID> [more PIDs...]  -> confirm in a scratch worktree, then run ./selftest for each PID
D=$1; shift
cd "$(dirname "$(readlink -f "$0")")/.."
c=$(bash tools/confirm_seed.sh $D 2>&1 | tail -1)
echo "$c" | tee $D/confirm.log
case "$c" in CONFIRMED*) ;; *) exit 1;; esac
for p in "$@"; do
  extra=""
  if [ -f $D/check_args_$p ]; then extra=$(cat $D/check_args_$p); fi
  ./selftest $D/patch.diff $p $extra 2>&1 | grep -E "^\[(CAUGHT|MISSED)\]|VIOLATION" | head -4
done
