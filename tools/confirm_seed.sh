#!/bin/bash
# usage: confirm_seed.sh <dir with patch.diff demo.cpp run_demo.sh> -> prints CONFIRMED / REJECTED with reasons
# Confirms in a scratch worktree: demo passes on the clean tree, patch applies, test suite still passes, demo fails with the patch.
set -u
D=$(realpath "$1"); W=$(mktemp -d /tmp/confirm_XXXX); rmdir $W
git -C /repo worktree add -q --detach $W HEAD || exit 2
trap 'git -C /repo worktree remove --force $W >/dev/null 2>&1; rm -rf $W' EXIT
res=""
( cd $D && bash ./run_demo.sh $W >/tmp/$(basename $W).clean.log 2>&1 ); c0=$?
[ $c0 -eq 0 ] || res="$res demo-fails-on-clean($c0)"
git -C $W apply $D/patch.diff || { echo "REJECTED $D: patch does not apply"; exit 1; }
( cd $W/tests && make -j16 >/dev/null 2>&1 && ./test > $W/test.out 2>&1 ); t=$?
if [ ! -f /tmp/baseline_test.out ]; then echo "no baseline"; fi
# compare pass/fail lines with the baseline (ignore timing)
if [ $t -ne 0 ]; then res="$res testsuite-exit($t)"; fi
if ! diff <(grep -E 'PASS|FAIL' /tmp/baseline_test.out | sed 's/[0-9.]* *s//') <(grep -E 'PASS|FAIL' $W/test.out | sed 's/[0-9.]* *s//') >/dev/null; then res="$res testsuite-differs"; fi
( cd $D && bash ./run_demo.sh $W >/tmp/$(basename $W).mut.log 2>&1 ); c1=$?
[ $c1 -ne 0 ] || res="$res demo-passes-with-patch"
if [ -z "$res" ]; then echo "CONFIRMED $D (demo clean=0, demo patched=$c1, tests pass)"; else echo "REJECTED $D:$res"; fi
