#!/bin/bash
# runs every registered quick (or $1) check once and prints a summary line per property
tier=${1:-quick}
cd "$(dirname "$(readlink -f "$0")")/.."
for i in $(seq -w 1 20); do
  s=$(date +%s)
  out=$(./check C$i --tier $tier 2>&1); rc=$?
  echo "C$i rc=$rc $(( $(date +%s) - s ))s :: $(echo "$out" | tail -1)"
  if [ $rc -ne 0 ]; then echo "$out" | grep -E "VIOLATION|KNOWN|HARNESS|Error" | head -5; fi
done
