#!/usr/bin/env python3-vt
"""Mutation sweep: measures which small source changes the registered checks notice.

usage: tools/mutation_sweep.py --n 60 --seed 1 [--files REGEX] [--jobs 3] [--workers 5] [--out mutants/sweep/run.jsonl]

For every sampled mutant (one-token / one-line change of a file under src/ or include/ of $JEDI_REPO_BASE,
default /repo) the tool copies the tree to a scratch directory under /tmp (removed afterwards), applies the
mutant, and runs the quick tier of the checks mapped to that file (JEDI_REPO pointing at the copy, evidence
redirected, private build directory) until one reports a VIOLATION. Output: one JSON line per mutant with the
diff, the verdict (killed-by / survived / no-build) and timings.  Survivors are either equivalent mutants or
gaps; they are reviewed by hand (see DESIGN.md section 7).  Not a MANIFEST command.
"""
import argparse
import difflib
import json
import os
import random
import re
import shutil
import subprocess
import sys
import tempfile
import time
from concurrent.futures import ThreadPoolExecutor

HERE = os.path.dirname(os.path.dirname(os.path.abspath(__file__)))
REPO = os.environ.get("JEDI_REPO_BASE", "/repo")

# file (regex) -> ordered list of (property, extra args); cheapest / most specific first
MAP = [
    (r"include/core/arch/(aarch64|armv6_m)/|src/core/arch/armv6_m/fp.cpp", [("C03", ["--sub", "primitives"]), ("C03", ["--sub", "generic"])]),
    (r"src/core/arch/aarch64/|src/core/arch/armv6_m/", [("C03", ["--sub", "arm"])]),
    (r"src/core/arch/x86_64/.*\.s$|include/core/arch/x86_64/", [("C03", []), ("C02", [])]),
    (r"src/core/arch/x86_64/runtime.cpp", [("C03", []), ("C20", [])]),
    (r"include/core/bigint.hpp", [("C03", []), ("C02", []), ("C18", []), ("C06", [])]),
    (r"include/core/fp.hpp", [("C02", []), ("C03", []), ("C18", [])]),
    (r"include/core/fp_utils.hpp", [("C02", []), ("C04", []), ("C18", [])]),
    (r"include/core/core.h", [("C19", [])]),
    (r"(src|include)/bls12_381/f[qr]\.(cpp|hpp)", [("C02", []), ("C10", []), ("C09", []), ("C19", [])]),
    (r"(src|include)/bls12_381/fq(2|6|12)\.(cpp|hpp)", [("C04", []), ("C18", []), ("C09", []), ("C01", [])]),
    (r"src/bls12_381/fq12_cyclotomic.cpp", [("C04", []), ("C07", []), ("C18", []), ("C01", [])]),
    (r"include/bls12_381/curve.hpp", [("C05", []), ("C06", []), ("C09", []), ("C10", []), ("C18", [])]),
    (r"src/bls12_381/curve.cpp", [("C09", []), ("C10", []), ("C05", [])]),
    (r"src/bls12_381/curve_fast_multiply.cpp", [("C06", []), ("C18", []), ("C20", [])]),
    (r"(src|include)/bls12_381/decomposition", [("C06", []), ("C07", []), ("C10", [])]),
    (r"include/bls12_381/wnaf.hpp", [("C06", []), ("C18", [])]),
    (r"(src|include)/bls12_381/pairing", [("C01", []), ("C08", []), ("C18", []), ("C19", [])]),
    (r"src/bls12_381/bls12_381.cpp|include/bls12_381/bls12_381.h", [("C19", []), ("C05", []), ("C09", []), ("C08", []), ("C07", [])]),
    (r"src/wkdibe/api.cpp", [("C11", []), ("C12", []), ("C13", []), ("C14", [])]),
    (r"src/wkdibe/marshal.cpp", [("C15", []), ("C17", [])]),
    (r"include/wkdibe/api.hpp", [("C15", []), ("C11", []), ("C10", []), ("C19", []), ("C17", [])]),
    (r"src/wkdibe/wkdibe.cpp|include/wkdibe/wkdibe.h", [("C19", []), ("C15", []), ("C14", []), ("C11", [])]),
    (r"src/lqibe/api.cpp|include/lqibe/api.hpp", [("C16", []), ("C10", []), ("C15", [])]),
    (r"src/lqibe/marshal.cpp", [("C15", []), ("C17", [])]),
    (r"src/lqibe/lqibe.cpp|include/lqibe/lqibe.h", [("C19", []), ("C15", []), ("C16", [])]),
]

CPP_OPS = [
    # comparisons are written with surrounding blanks in this code base; template brackets are not
    (r" <= ", " < "), (r" >= ", " > "), (r" < ", " <= "), (r" > ", " >= "), (r" < ", " > "), (r" > ", " < "),
    (r"==", "!="), (r"!=", "=="),
    (r"&&", "||"), (r"\|\|", "&&"),
    (r"(?<![+\w\)])\+\+", "--"), (r"\+ 1\b", "+ 2"), (r"- 1\b", "- 2"), (r"\+ 1\b", ""), (r"- 1\b", ""),
    (r"(?<=[\w\)\]]) \+ (?=[\w\(])", " - "), (r"(?<=[\w\)\]]) - (?=[\w\(])", " + "),
    (r"\btrue\b", "false"), (r"\bfalse\b", "true"),
    (r"\b0\b", "1"), (r"\b1\b", "0"), (r"\b2\b", "3"),
    (r"(?<=[\w\)\]]) & (?=[\w\(~])", " | "), (r"<<", ">>"), (r">>", "<<"),
    (r"\bi\b", "(i+1)"),
    (r"\.add\(", ".subtract("), (r"\.subtract\(", ".add("), (r"\.multiply2\(", ".copy("),
    (r"\.c0\b", ".c1"), (r"\.c1\b", ".c0"), (r"\.c2\b", ".c1"),
    (r"\.x\b", ".y"), (r"\.y\b", ".x"),
    (r"\bif \((?!!)", "if (!"), (r"\bwhile \((?!!)", "while (false && "),
    (r"!(?=[\w\(])", ""),
]
ASM_OPS = [
    (r"\badcq\b", "addq"), (r"\bsbbq\b", "subq"), (r"\badcxq\b", "adoxq"), (r"\badoxq\b", "adcxq"),
    (r"\badcs\b", "adds"), (r"\bsbcs\b", "subs"), (r"\badc\b", "add"), (r"\badds\b", "adcs"),
    (r"\bjb\b", "jbe"), (r"\bja\b", "jae"), (r"\bjae\b", "ja"), (r"\bjbe\b", "jb"), (r"\bjc\b", "jnc"), (r"\bjnc\b", "jc"),
    (r"\bjne\b", "je"), (r"\bje\b", "jne"),
    (r"\bb\.lo\b", "b.ls"), (r"\bb\.hi\b", "b.hs"), (r"\bb\.hs\b", "b.hi"), (r"\bb\.ne\b", "b.eq"), (r"\bbcc\b", "bcs"), (r"\bbcs\b", "bcc"), (r"\bblo\b", "bls"), (r"\bbhi\b", "bhs"),
    (r"\bcmovcq\b", "cmovncq"), (r"\bcmovbq\b", "cmovaeq"),
    (r"#(\d+)", lambda m: "#%d" % (int(m.group(1)) + 4)), (r"\b(\d+)\(%r", lambda m: "%d(%%r" % (int(m.group(1)) + 8)),
    (r"\bumulh\b", "mul"), (r"\bmul\b", "umulh"),
]


def files():
    out = []
    for sub in ("src", "include"):
        for d, _, fs in os.walk(os.path.join(REPO, sub)):
            for f in sorted(fs):
                if f.endswith((".cpp", ".hpp", ".h", ".s")):
                    out.append(os.path.relpath(os.path.join(d, f), REPO))
    return sorted(out)


def checks_for(rel):
    for rx, lst in MAP:
        if re.search(rx, rel):
            return lst
    return []


def candidate_mutants(rel):
    """All (lineno, new line, description) for one file."""
    lines = open(os.path.join(REPO, rel)).read().split("\n")
    is_asm = rel.endswith(".s")
    ops = ASM_OPS if is_asm else CPP_OPS
    out = []
    in_block = False
    for n, line in enumerate(lines):
        st = line.strip()
        if in_block:
            if "*/" in st:
                in_block = False
            continue
        if st.startswith("/*"):
            if "*/" not in st:
                in_block = True
            continue
        if not st or st.startswith(("//", "#", "*", "@", "template", "namespace", "extern", "using", "typedef", "static_assert", "}", "{", ".global", ".globl", ".type", ".text", ".align", ".syntax", ".macro", ".endm", ".thumb", ".cpu")):
            continue
        code = line.split("//")[0]
        for rx, rep in ops:
            for m in re.finditer(rx, code):
                new = code[:m.start()] + (rep(m) if callable(rep) else rep) + code[m.end():]
                if new != code:
                    out.append((n, new + line[len(code):], "%s:%d %r -> %r" % (rel, n + 1, m.group(0), rep(m) if callable(rep) else rep)))
        # statement deletion: a line that is a single call / assignment statement
        if not is_asm and st.endswith(";") and not st.startswith(("return", "break", "continue", "case", "default", "goto")) and "(" in st and not re.match(r"^(const |static |constexpr |[\w:<>]+\s+[\w\[\]]+(\s*=|;)|[\w:<>]+ [\w]+\()", st) and st.count("(") == st.count(")"):
            out.append((n, re.match(r"\s*", line).group(0) + ";", "%s:%d delete %r" % (rel, n + 1, st[:60])))
        if is_asm and re.match(r"^(adc|sbb|adcs|sbcs|adcx|adox)", st):
            out.append((n, "", "%s:%d delete %r" % (rel, n + 1, st[:60])))
    return lines, out


def run_mutant(idx, rel, lines, mut, args):
    n, newline, desc = mut
    d = tempfile.mkdtemp(prefix="jedi_msw_")
    t0 = time.time()
    rec = {"idx": idx, "file": rel, "line": n + 1, "desc": desc, "old": lines[n], "new": newline}
    try:
        for sub in ("src", "include"):
            shutil.copytree(os.path.join(REPO, sub), os.path.join(d, sub), symlinks=True)
        new = list(lines)
        new[n] = newline
        open(os.path.join(d, rel), "w").write("\n".join(new))
        env = dict(os.environ, JEDI_REPO=d, VERIF_EVIDENCE_OUT=os.path.join(d, "evidence.json"), VERIF_BUILD_DIR=os.path.join(d, "build"),
                   VERIF_REPLAY_DIR=os.path.join(d, "replays"))
        env.setdefault("VERIF_SEED", "0")
        rec["runs"] = []
        verdict = "survived"
        for pid, extra in checks_for(rel):
            t1 = time.time()
            cmd = [os.path.join(HERE, "check"), pid, "--tier", "quick"] + extra
            if args.workers and pid not in ("C17", "C20"):
                cmd += ["--workers", str(args.workers)]
            try:
                r = subprocess.run(cmd, cwd=HERE, env=env, stdout=subprocess.PIPE, stderr=subprocess.STDOUT, text=True, timeout=1800)
                out, rc = r.stdout, r.returncode
            except subprocess.TimeoutExpired as e:
                out, rc = (e.stdout or b"").decode("utf8", "replace") if isinstance(e.stdout, bytes) else (e.stdout or ""), 124
            viol = [l for l in out.splitlines() if l.startswith("VIOLATION")]
            rec["runs"].append({"pid": pid, "rc": rc, "s": round(time.time() - t1, 1), "viol": viol[:2], "tail": out.strip().splitlines()[-3:] if rc not in (0, 1) else []})
            if rc == 1 and viol:
                verdict = "killed:" + pid
                break
            if rc == 2 and ("BuildError" in out or "command failed" in out or "does-not-build" in out):
                verdict = "no-build"
                break
            if rc not in (0, 1):
                verdict = "other:%s:%d" % (pid, rc)
                break
        rec["verdict"] = verdict
    except Exception as e:     # noqa
        rec["verdict"] = "error"
        rec["error"] = repr(e)
    finally:
        shutil.rmtree(d, ignore_errors=True)
    rec["s"] = round(time.time() - t0, 1)
    return rec


def main():
    ap = argparse.ArgumentParser()
    ap.add_argument("--n", type=int, default=40)
    ap.add_argument("--seed", type=int, default=1)
    ap.add_argument("--files", default=".")
    ap.add_argument("--jobs", type=int, default=3)
    ap.add_argument("--workers", type=int, default=5)
    ap.add_argument("--out", default=None)
    ap.add_argument("--list", action="store_true")
    ap.add_argument("--desc", default=None, help="only candidates whose description matches this regular expression (e.g. ' delete ')")
    ap.add_argument("--all", action="store_true", help="run every candidate instead of sampling --n")
    args = ap.parse_args()
    rng = random.Random(args.seed)
    pool = []
    cache = {}
    for rel in files():
        if not re.search(args.files, rel) or not checks_for(rel):
            continue
        lines, muts = candidate_mutants(rel)
        cache[rel] = lines
        pool += [(rel, m) for m in muts if not args.desc or re.search(args.desc, m[2])]
    if args.list:
        for rel, m in pool:
            print(m[2])
        print(len(pool), "candidates")
        return 0
    # sample evenly over files first, then over candidates
    by_file = {}
    for rel, m in pool:
        by_file.setdefault(rel, []).append(m)
    picks = []
    fl = sorted(by_file)
    if args.all:
        args.n = len(pool)
    while len(picks) < args.n and fl:
        rel = rng.choice(fl)
        m = by_file[rel].pop(rng.randrange(len(by_file[rel])))
        if not by_file[rel]:
            fl.remove(rel)
        picks.append((rel, m))
    out = args.out or os.path.join(HERE, "mutants", "sweep", "sweep-seed%d-%s.jsonl" % (args.seed, time.strftime("%m%d%H%M")))
    os.makedirs(os.path.dirname(out), exist_ok=True)
    summary = {}
    with open(out, "a") as fh, ThreadPoolExecutor(max_workers=args.jobs) as ex:
        futs = [ex.submit(run_mutant, i, rel, cache[rel], m, args) for i, (rel, m) in enumerate(picks)]
        for f in futs:
            rec = f.result()
            fh.write(json.dumps(rec) + "\n")
            fh.flush()
            v = rec["verdict"].split(":")[0]
            summary[v] = summary.get(v, 0) + 1
            print("%-12s %6.0fs  %s" % (rec["verdict"], rec["s"], rec["desc"]), flush=True)
    print("summary:", summary, "->", out)
    return 0


if __name__ == "__main__":
    sys.exit(main())
